package mqtt

import (
	"testing"
	"time"

	"github.com/mochi-mqtt/server/v2/packets"
)

// B4: client Receive Maximum 1, two QoS1 messages queued. The second one is deferred by
// flow control; when it is finally written (after the PUBACK of the first) it is deleted
// from the in-flight map at the same time, so it is never resent after a reconnect.
func TestRepro_B4(t *testing.T) {
	s := reproServer(t, nil)
	props := v5session
	props.ReceiveMaximum = 1
	sub, _ := reproConnect(t, s, "b4-sub", 5, true, props)
	sub.subscribe("b4/t", 1)
	pub, _ := reproConnect(t, s, "b4-pub", 5, true, packets.Properties{})

	pub.publish("b4/t", 1, 1, "first")
	pub.expectType(packets.Puback, "PUBACK first")
	pub.publish("b4/t", 1, 2, "second")
	pub.expectType(packets.Puback, "PUBACK second")

	m1 := sub.expectType(packets.Publish, "first message")
	if string(m1.Payload) != "first" {
		t.Fatalf("setup: got %q", m1.Payload)
	}
	if pk, ok := sub.recv(200 * time.Millisecond); ok {
		t.Fatalf("setup: flow control did not defer second message, got type %d %q", pk.FixedHeader.Type, pk.Payload)
	}
	srvCl, _ := s.Clients.Get("b4-sub")
	if n := srvCl.State.Inflight.Len(); n != 2 {
		t.Fatalf("setup: expected 2 in-flight records, got %d", n)
	}

	sub.ack(packets.Puback, m1.PacketID, 0)
	m2 := sub.expectType(packets.Publish, "second (deferred) message")
	if string(m2.Payload) != "second" || m2.FixedHeader.Qos != 1 {
		t.Fatalf("setup: got %q qos %d", m2.Payload, m2.FixedHeader.Qos)
	}
	time.Sleep(50 * time.Millisecond)
	_, tracked := srvCl.State.Inflight.Get(m2.PacketID)
	t.Logf("after the deferred message (id %d) was written and NOT yet acknowledged: in-flight record present=%v, in-flight len=%d", m2.PacketID, tracked, srvCl.State.Inflight.Len())

	// the client never acknowledges m2; the network drops and it reconnects with its session
	sub.hangup()
	sub2, ack := reproConnect(t, s, "b4-sub", 5, false, props)
	if !ack.SessionPresent {
		t.Fatalf("setup: session not present on reconnect")
	}
	re, ok := sub2.recv(500 * time.Millisecond)
	if !ok {
		t.Fatalf("unacknowledged QoS1 message %q (id %d): expected it to be resent (DUP) after reconnect with session present [MQTT-4.4.0-1]; observed nothing resent within 500ms (in-flight record present right after the deferred write=%v) -> message lost", m2.Payload, m2.PacketID, tracked)
	}
	if re.FixedHeader.Type != packets.Publish || string(re.Payload) != "second" {
		t.Fatalf("expected resend of %q, got type %d payload %q", "second", re.FixedHeader.Type, re.Payload)
	}
}

// Extra observation found while reproducing B4 (same root cause): because the deferred
// message's record is deleted when it is written, the client's PUBACK for it finds no record,
// IncreaseSendQuota is never called, and the send quota stays at 0 for the rest of the
// connection: every later QoS>0 message is deferred forever.
func TestRepro_B4_QuotaLeak(t *testing.T) {
	s := reproServer(t, nil)
	props := v5session
	props.ReceiveMaximum = 1
	sub, _ := reproConnect(t, s, "b4-sub", 5, true, props)
	sub.subscribe("b4/t", 1)
	pub, _ := reproConnect(t, s, "b4-pub", 5, true, packets.Properties{})
	for i, p := range []string{"first", "second"} {
		pub.publish("b4/t", 1, uint16(i+1), p)
		pub.expectType(packets.Puback, "PUBACK")
	}
	m1 := sub.expectType(packets.Publish, "first")
	if pk, ok := sub.recv(200 * time.Millisecond); ok {
		t.Fatalf("setup: flow control did not defer second message, got type %d %q", pk.FixedHeader.Type, pk.Payload)
	}
	sub.ack(packets.Puback, m1.PacketID, 0)
	m2 := sub.expectType(packets.Publish, "second")
	sub.ack(packets.Puback, m2.PacketID, 0) // a well behaved client acknowledges everything
	if !sub.alive() {
		t.Fatalf("connection died")
	}
	// nothing is outstanding now; a third message must be delivered straight away
	pub.publish("b4/t", 1, 3, "third")
	pub.expectType(packets.Puback, "PUBACK third")
	if _, ok := sub.recv(500 * time.Millisecond); !ok {
		srvCl, _ := s.Clients.Get("b4-sub")
		alive := sub.alive() // any inbound packet gives processPacket a chance to release deferred messages
		_, ok2 := sub.recv(300 * time.Millisecond)
		t.Fatalf("client acknowledged every message, yet a third QoS1 message is not delivered within 500ms: sendQuota=%d (expected 1), in-flight len=%d, connection alive=%v, delivered after a PINGREQ round trip=%v", srvCl.State.Inflight.sendQuota, srvCl.State.Inflight.Len(), alive, ok2)
	}
}
