package mqtt

import (
	"fmt"
	"testing"

	"github.com/mochi-mqtt/server/v2/packets"
)

// B11: Inflight.GetAll sorts by uint16(Created) where Created has one-second resolution, so
// several in-flight messages created within the same second come back in map-iteration order and
// the resend order after a reconnect is not the publish order [MQTT-4.6.0-1].
func TestRepro_B11(t *testing.T) {
	t.Run("resend_order_after_reconnect", func(t *testing.T) {
		const n = 8
		for attempt := 1; attempt <= 20; attempt++ {
			s := reproServer(t, nil)
			c, _ := reproConnect(t, s, "b11", 4, false, packets.Properties{})
			c.subscribe("b11/t", 1)
			pub, _ := reproConnect(t, s, "b11-pub", 4, true, packets.Properties{})
			for i := 1; i <= n; i++ {
				pub.publish("b11/t", 1, uint16(i), fmt.Sprintf("m%d", i))
				pub.expectType(packets.Puback, "PUBACK")
			}
			first := ""
			for i := 1; i <= n; i++ {
				m := c.expectType(packets.Publish, "message")
				first += string(m.Payload) + " "
			}
			c.hangup()
			c2, cack := reproConnect(t, s, "b11", 4, false, packets.Properties{})
			if !cack.SessionPresent {
				t.Fatalf("setup: no session")
			}
			resent := ""
			for i := 1; i <= n; i++ {
				m := c2.expectType(packets.Publish, "resent message")
				resent += string(m.Payload) + " "
			}
			_ = c2.conn.Close()
			_ = pub.conn.Close()
			if resent != first {
				t.Fatalf("attempt %d: %d unacknowledged QoS1 messages on one topic: original delivery order [%s]; expected the same order on resend after reconnect [MQTT-4.6.0-1]; observed resend order [%s]", attempt, n, first, resent)
			}
		}
	})

	// deterministic variant on the data structure itself, including the uint16 truncation wrap
	t.Run("getall_uint16_truncation", func(t *testing.T) {
		i := NewInflights()
		i.Set(packets.Packet{PacketID: 1, Created: 65535}) // older
		i.Set(packets.Packet{PacketID: 2, Created: 65536}) // one second newer, uint16(65536) == 0
		all := i.GetAll(false)
		if all[0].PacketID != 1 {
			t.Fatalf("GetAll: packet created at t=65535 must come before packet created at t=65536; observed order ids [%d %d] (uint16 truncation of Created)", all[0].PacketID, all[1].PacketID)
		}
	})
}
