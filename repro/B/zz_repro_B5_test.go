package mqtt

import (
	"testing"
	"time"

	"github.com/mochi-mqtt/server/v2/packets"
)

// B5a: broker has an outbound QoS1 PUBLISH with id N in flight to C; C publishes its own
// QoS1 message with the same id N (a different id space per MQTT 2.2.1) -> the broker's
// outbound record N is deleted and never retried.
func TestRepro_B5(t *testing.T) {
	t.Run("inbound_publish_deletes_outbound_record", func(t *testing.T) {
		s := reproServer(t, nil)
		c, _ := reproConnect(t, s, "b5", 5, true, v5session)
		c.subscribe("b5/down", 1)
		pub, _ := reproConnect(t, s, "b5-pub", 5, true, packets.Properties{})
		pub.publish("b5/down", 1, 50, "downstream")
		pub.expectType(packets.Puback, "PUBACK")

		m := c.expectType(packets.Publish, "downstream message")
		n := m.PacketID
		srvCl, _ := s.Clients.Get("b5")
		if rec, ok := srvCl.State.Inflight.Get(n); !ok || rec.FixedHeader.Type != packets.Publish {
			t.Fatalf("setup: outbound record %d missing", n)
		}

		// C does not acknowledge yet; it publishes its own message re-using the number n
		c.publish("b5/up", 1, n, "upstream")
		ack := c.expectType(packets.Puback, "PUBACK for upstream")
		if ack.PacketID != n || ack.ReasonCode >= 0x80 {
			t.Fatalf("setup: upstream PUBACK id %d reason 0x%02x", ack.PacketID, ack.ReasonCode)
		}
		time.Sleep(50 * time.Millisecond)
		_, still := srvCl.State.Inflight.Get(n)

		c.hangup()
		c2, cack := reproConnect(t, s, "b5", 5, false, v5session)
		if !cack.SessionPresent {
			t.Fatalf("setup: no session")
		}
		re, ok := c2.recv(500 * time.Millisecond)
		if !ok || re.FixedHeader.Type != packets.Publish || string(re.Payload) != "downstream" {
			t.Fatalf("broker->client QoS1 PUBLISH id %d was never acknowledged by the client, but after the client published its OWN QoS1 message with the same id: outbound in-flight record still present=%v (expected true); resent after reconnect=%v type=%d payload=%q (expected a DUP resend of %q)", n, still, ok, re.FixedHeader.Type, re.Payload, "downstream")
		}
	})

	// B5b: a PUBACK from the client (which can only refer to broker->client messages) for an id
	// that currently holds an inbound QoS2 PUBREC marker deletes that marker.
	t.Run("puback_deletes_inbound_qos2_marker", func(t *testing.T) {
		s := reproServer(t, nil)
		c, _ := reproConnect(t, s, "b5", 5, true, v5session)
		c.publish("b5/up", 2, 5, "qos2")
		c.expectType(packets.Pubrec, "PUBREC id 5")
		srvCl, _ := s.Clients.Get("b5")
		if rec, ok := srvCl.State.Inflight.Get(5); !ok || rec.FixedHeader.Type != packets.Pubrec {
			t.Fatalf("setup: PUBREC marker 5 missing")
		}

		c.ack(packets.Puback, 5, 0) // refers to a broker->client id 5 (none exists): must be ignored
		if !c.alive() {
			t.Fatalf("connection closed after stray PUBACK")
		}
		_, still := srvCl.State.Inflight.Get(5)

		c.ack(packets.Pubrel, 5, 0)
		comp := c.expectType(packets.Pubcomp, "PUBCOMP id 5")
		if !still || comp.ReasonCode != 0 {
			t.Fatalf("stray PUBACK id 5 while inbound QoS2 id 5 awaits PUBREL: inbound PUBREC marker still present=%v (expected true); PUBCOMP reason=0x%02x (expected 0x00) -> the broker lost its duplicate-detection state for inbound id 5", still, comp.ReasonCode)
		}
	})
}
