package mqtt

import (
	"fmt"
	"testing"
	"time"

	"github.com/mochi-mqtt/server/v2/packets"
)

// B1: a QoS 1 PUBLISH to "$SYS/x" from a normal client gets no PUBACK and the
// connection stays open.
func TestRepro_B1(t *testing.T) {
	for _, ver := range []byte{4, 5} {
		ver := ver
		t.Run(fmt.Sprintf("v%d", ver), func(t *testing.T) {
			s := reproServer(t, nil)
			c, _ := reproConnect(t, s, "b1", ver, true, packets.Properties{})
			c.publish("$SYS/x", 1, 7, "hello")

			pk, ok := c.recv(500 * time.Millisecond)
			if ok {
				t.Logf("broker answered with packet type %d id %d reason 0x%02x", pk.FixedHeader.Type, pk.PacketID, pk.ReasonCode)
				return
			}
			// nothing arrived: either the connection was closed (acceptable) or silently swallowed (defect)
			if !c.alive() {
				t.Logf("connection closed by broker")
				return
			}
			t.Fatalf("QoS1 PUBLISH id 7 to $SYS/x: expected PUBACK (any reason code) or a closed connection; observed NO acknowledgement within 500ms and the connection is still alive (PINGRESP received)")
		})
	}
}
