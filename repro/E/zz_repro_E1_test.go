// Place in the repository root (package mqtt). Run: go test -count=1 -run TestRepro_E1 .
// E1 (C24.a): an outbound topic-alias binding created for a message that is then dropped is never
// announced to the client; the next message on that topic goes out with the alias and an empty topic.
package mqtt

import (
	"testing"

	"github.com/mochi-mqtt/server/v2/packets"
)

func TestRepro_E1(t *testing.T) {
	s := newServer()
	cl, _, _ := newTestClient()
	cl.ID = "e1"
	cl.Properties.ProtocolVersion = 5
	cl.Properties.Props.TopicAliasMaximum = 5
	cl.State.TopicAliases.Outbound = NewOutboundTopicAliases(5)
	s.Clients.Add(cl)
	sub := packets.Subscription{Filter: "a/b"}
	pk := packets.Packet{FixedHeader: packets.FixedHeader{Type: packets.Publish}, TopicName: "a/b", Payload: []byte("x")}

	// fill the pending-writes queue so that the first delivery is dropped (reported drop, permitted)
	for len(cl.State.outbound) < cap(cl.State.outbound) {
		cl.State.outbound <- &packets.Packet{}
	}
	if _, err := s.publishToClient(cl, sub, pk); err == nil {
		t.Fatal("expected the first delivery to be dropped (queue full)")
	}
	// the client drains its queue; nothing on topic a/b was ever sent to it
	for len(cl.State.outbound) > 0 {
		<-cl.State.outbound
	}
	out, err := s.publishToClient(cl, sub, pk)
	if err != nil {
		t.Fatal(err)
	}
	if out.TopicName == "" && out.Properties.TopicAlias > 0 {
		t.Fatalf("E1 reproduced: second message goes out with empty topic and alias %d although the client never received a PUBLISH binding that alias (the first one was dropped)", out.Properties.TopicAlias)
	}
}
