// Place in the repository root (package mqtt). Run: go test -count=1 -run TestRepro_E2 .
// E2 (C31.c): InlineUnsubscribe reports `existed` for an identifier that never subscribed.
package mqtt

import (
	"testing"

	"github.com/mochi-mqtt/server/v2/packets"
)

func TestRepro_E2(t *testing.T) {
	x := NewTopicsIndex()
	x.InlineSubscribe(InlineSubscription{Subscription: packets.Subscription{Filter: "a/b", Identifier: 1}})
	if x.InlineUnsubscribe(2, "a/b") {
		t.Fatal("E2 reproduced: InlineUnsubscribe(2, \"a/b\") = true although identifier 2 never subscribed (identifier 1 is subscribed)")
	}
}
