// Place in the repository root (package mqtt). Run: go test -count=1 -run 'TestRepro_E3|TestRepro_E4' .
// E3 (C38): publishSysTopics retains the $SYS values in the retained store without refreshing Info.Retained,
//           so the published $SYS/broker/retained value differs from the number of retained messages.
// E4 (C38): loadRetained restores retained messages without refreshing Info.Retained.
package mqtt

import (
	"sync/atomic"
	"testing"

	"github.com/mochi-mqtt/server/v2/hooks/storage"
	"github.com/mochi-mqtt/server/v2/packets"
)

func TestRepro_E3(t *testing.T) {
	s := newServer()
	s.publishSysTopics()
	actual := int64(s.Topics.Retained.Len())
	reported := atomic.LoadInt64(&s.Info.Retained)
	if actual != reported {
		t.Fatalf("E3 reproduced: after publishSysTopics the retained store holds %d messages but Info.Retained (published as $SYS/broker/retained) is %d", actual, reported)
	}
}

func TestRepro_E4(t *testing.T) {
	s := newServer()
	s.loadRetained([]storage.Message{{TopicName: "a/b", Payload: []byte("x"), FixedHeader: packets.FixedHeader{Type: packets.Publish, Retain: true}}})
	actual := int64(s.Topics.Retained.Len())
	reported := atomic.LoadInt64(&s.Info.Retained)
	if actual != reported {
		t.Fatalf("E4 reproduced: after loadRetained the retained store holds %d messages but Info.Retained is %d", actual, reported)
	}
}
