package mqtt

import (
	"sync"
	"sync/atomic"
	"testing"
	"time"

	"github.com/mochi-mqtt/server/v2/packets"
)

// All C10 tests are meant to be run with `go test -race`: the race detector makes the test fail
// ("race detected during execution of test") iff the unsynchronised accesses are real.
// Event-loop work (sendDelayedLWT / clearExpiredClients) is invoked from a dedicated goroutine,
// exactly like Server.eventLoop does, only more often than once per second.

// C10a: cl.Properties.Will written by the event loop (sendDelayedLWT) / read by the connection goroutine (sendLWT).
func TestRepro_C10a(t *testing.T) {
	s := newServer()
	defer s.Close()

	var stop atomic.Bool
	var wg sync.WaitGroup
	wg.Add(1)
	go func() { // the "event loop"
		defer wg.Done()
		for !stop.Load() {
			s.sendDelayedLWT(time.Now().Unix() + 100) // every registered delayed will is due
		}
	}()

	connect := func(id string) []byte {
		return reproConnectBytes(5, id, false, func(pk *packets.Packet) {
			pk.Properties.SessionExpiryInterval = 300
			pk.Properties.SessionExpiryIntervalFlag = true
			pk.Connect.WillFlag = true
			pk.Connect.WillTopic = "will/c10"
			pk.Connect.WillPayload = []byte("bye")
			pk.Connect.WillProperties.WillDelayInterval = 1
		})
	}

	deadline := time.Now().Add(10 * time.Second)
	for i := 0; time.Now().Before(deadline) && i < 3000; i++ {
		// the same client id reconnects and drops (abnormally) over and over, as a flaky device does.
		w, done := reproAttach(s, "tcp")
		rd := newReproReader(w, 5)
		go func() { _, _ = w.Write(connect("c10a")) }()
		if _, _, err := rd.next(time.Second); err != nil {
			t.Fatalf("connack: %v", err)
		}
		_ = w.Close()
		<-done
	}
	stop.Store(true)
	wg.Wait()
}

// C10b: cl.Properties.Props.SessionExpiryInterval written by the connection goroutine
// (SendConnack capping / processDisconnect) while clearExpiredClients reads it.
func TestRepro_C10b(t *testing.T) {
	s := newServer()
	defer s.Close()
	s.Options.Capabilities.MaximumSessionExpiryInterval = 1000

	var stop atomic.Bool
	var wg sync.WaitGroup
	wg.Add(1)
	go func() { // the "event loop"
		defer wg.Done()
		for !stop.Load() {
			s.clearExpiredClients(time.Now().Unix())
		}
	}()

	connect := reproConnectBytes(5, "c10b", false, func(pk *packets.Packet) {
		pk.Properties.SessionExpiryInterval = 0xFFFFFFFF // > server maximum, SendConnack caps it (write)
		pk.Properties.SessionExpiryIntervalFlag = true
	})
	disconnect := reproEncode(packets.Packet{
		ProtocolVersion: 5,
		FixedHeader:     packets.FixedHeader{Type: packets.Disconnect},
		Properties:      packets.Properties{SessionExpiryInterval: 500, SessionExpiryIntervalFlag: true}, // processDisconnect (write)
	})

	// several devices using the same client id fight over the session (take each other over).
	deadline := time.Now().Add(10 * time.Second)
	var cw sync.WaitGroup
	for g := 0; g < 4; g++ {
		cw.Add(1)
		go func() {
			defer cw.Done()
			for i := 0; time.Now().Before(deadline) && i < 1500; i++ {
				w, done := reproAttach(s, "tcp")
				rd := newReproReader(w, 5)
				go func() { _, _ = w.Write(connect) }()
				_, _, err := rd.next(time.Second)
				reproDrain(w)
				if err == nil {
					_ = w.SetWriteDeadline(time.Now().Add(100 * time.Millisecond))
					_, _ = w.Write(disconnect)
				}
				_ = w.Close()
				<-done
			}
		}()
	}
	cw.Wait()
	stop.Store(true)
	wg.Wait()
}

// C10c: particle.retainPath is written under the particle lock in RetainMessage but read without it in scanMessages.
func TestRepro_C10c(t *testing.T) {
	s := newServer()
	defer s.Close()

	// keep the particle alive so that only retainPath changes
	s.Topics.Subscribe("keeper", packets.Subscription{Filter: "a/b"})

	var stop atomic.Bool
	var wg sync.WaitGroup
	wg.Add(2)
	go func() { // publisher setting / clearing the retained message of a/b
		defer wg.Done()
		for i := 0; !stop.Load(); i++ {
			pk := packets.Packet{FixedHeader: packets.FixedHeader{Type: packets.Publish, Retain: true}, TopicName: "a/b", Payload: []byte("x")}
			if i%2 == 1 {
				pk.Payload = nil
			}
			s.Topics.RetainMessage(pk)
		}
	}()
	go func() { // a subscriber subscribing to a/# -> publishRetainedToClient -> Topics.Messages
		defer wg.Done()
		for !stop.Load() {
			_ = s.Topics.Messages("a/#")
			_ = s.Topics.Messages("a/b")
		}
	}()
	time.Sleep(2 * time.Second)
	stop.Store(true)
	wg.Wait()
}
