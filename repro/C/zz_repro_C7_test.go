package mqtt

import (
	"bytes"
	"io"
	"net"
	"testing"
	"time"

	"github.com/mochi-mqtt/server/v2/listeners"
	"github.com/mochi-mqtt/server/v2/packets"
)

// reproDenyWriteHook denies every publish (write) ACL check.
type reproDenyWriteHook struct {
	HookBase
}

func (h *reproDenyWriteHook) ID() string { return "repro-deny-write" }
func (h *reproDenyWriteHook) Provides(b byte) bool {
	return bytes.Contains([]byte{OnConnectAuthenticate, OnACLCheck}, []byte{b})
}
func (h *reproDenyWriteHook) OnConnectAuthenticate(cl *Client, pk packets.Packet) bool { return true }
func (h *reproDenyWriteHook) OnACLCheck(cl *Client, topic string, write bool) bool     { return !write }

// reproC7Connect connects an MQTT 3.1.1 client and returns its connection.
func reproC7Connect(t *testing.T, s *Server, id string) (net.Conn, *reproReader, chan error) {
	w, done := reproAttach(s, "tcp")
	rd := newReproReader(w, 4)
	go func() { _, _ = w.Write(reproConnectBytes(4, id, false, nil)) }()
	pk, _, err := rd.next(time.Second)
	if err != nil || pk.FixedHeader.Type != packets.Connack || pk.ReasonCode != 0 {
		t.Fatalf("connect %s: %v %v", id, pk, err)
	}
	return w, rd, done
}

// reproC7Rest reads everything the server still sends to a v3.1.1 client until the connection is closed.
func reproC7Rest(rd *reproReader) []byte {
	_ = rd.c.SetReadDeadline(time.Now().Add(2 * time.Second))
	b, _ := io.ReadAll(rd.br)
	return b
}

// C7: the server sends DISCONNECT packets to MQTT 3.1.1 clients; in v3.1.1 DISCONNECT is client->server only
// (the server must simply close the network connection).
func TestRepro_C7(t *testing.T) {
	check := func(t *testing.T, where string, rest []byte) {
		if len(rest) > 0 {
			t.Fatalf("%s: MQTT 3.1.1 client received bytes % x from the server before the connection was closed (packet type %s); expected the connection to be closed without a server-to-client DISCONNECT",
				where, rest, packets.PacketNames[rest[0]>>4])
		}
	}

	t.Run("session_takeover", func(t *testing.T) {
		s := newServer()
		defer s.Close()
		_, rdA, _ := reproC7Connect(t, s, "c7")
		restCh := make(chan []byte, 1)
		go func() { restCh <- reproC7Rest(rdA) }()
		wB, _, _ := reproC7Connect(t, s, "c7")
		defer wB.Close()
		reproDrain(wB)
		check(t, "takeover", <-restCh)
	})

	t.Run("server_shutdown", func(t *testing.T) {
		s := newServer()
		_ = s.AddListener(listeners.NewMockListener("tcp", ":0"))
		_, rdA, _ := reproC7Connect(t, s, "c7")
		restCh := make(chan []byte, 1)
		go func() { restCh <- reproC7Rest(rdA) }()
		_ = s.Close()
		check(t, "shutdown", <-restCh)
	})

	t.Run("acl_denied_qos1_publish", func(t *testing.T) {
		s := New(&Options{Logger: logger})
		_ = s.AddHook(new(reproDenyWriteHook), nil)
		defer s.Close()
		wA, rdA, _ := reproC7Connect(t, s, "c7")
		restCh := make(chan []byte, 1)
		go func() { restCh <- reproC7Rest(rdA) }()
		_, _ = wA.Write(reproEncode(packets.Packet{
			ProtocolVersion: 4,
			FixedHeader:     packets.FixedHeader{Type: packets.Publish, Qos: 1},
			TopicName:       "x/y", PacketID: 3, Payload: []byte("p"),
		}))
		check(t, "acl denied qos1 publish", <-restCh)
	})
}
