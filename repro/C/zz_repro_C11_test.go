package mqtt

import (
	"net"
	"sync/atomic"
	"testing"
	"time"

	"github.com/mochi-mqtt/server/v2/hooks/storage"
	"github.com/mochi-mqtt/server/v2/packets"
)

// reproRealInflight sums the in-flight records of every session known to the broker.
func reproRealInflight(s *Server) int64 {
	var n int64
	for _, cl := range s.Clients.GetAll() {
		n += int64(cl.State.Inflight.Len())
	}
	return n
}

// C11a: publishToClient queue-overflow rollback deletes the in-flight record but leaves Info.Inflight incremented.
func TestRepro_C11a(t *testing.T) {
	s := newServer()
	defer s.Close()

	// a connected subscriber with a 3-slot write queue that is not being drained at the moment
	// (the WriteLoop goroutine is simply not started: equivalent to a burst arriving faster than it drains).
	s.Options.Capabilities.MaximumClientWritesPending = 3
	r, w := net.Pipe()
	defer r.Close()
	cl := s.NewClient(w, "tcp", "c11a", false)
	cl.Properties.ProtocolVersion = 4
	cl.State.Inflight.ResetSendQuota(1000)
	s.Clients.Add(cl)
	s.Topics.Subscribe(cl.ID, packets.Subscription{Filter: "t", Qos: 1})
	cl.State.Subscriptions.Add("t", packets.Subscription{Filter: "t", Qos: 1})

	const n = 20
	for i := 0; i < n; i++ {
		s.publishToSubscribers(packets.Packet{
			FixedHeader: packets.FixedHeader{Type: packets.Publish, Qos: 1},
			TopicName:   "t", Payload: []byte("x"), PacketID: 1,
		})
	}

	dropped := atomic.LoadInt64(&s.Info.MessagesDropped)
	real := reproRealInflight(s)
	counter := atomic.LoadInt64(&s.Info.Inflight)
	if dropped == 0 {
		t.Fatalf("setup: expected queue overflow drops")
	}
	if counter != real {
		t.Fatalf("after %d QoS1 publishes to a stalled client (%d dropped on queue overflow): $SYS Info.Inflight=%d but the sessions really hold %d in-flight messages (drift %+d)",
			n, dropped, counter, real, counter-real)
	}
}

// C11b: takeover with in-flight messages: Clone copies the records, existing.ClearInflights subtracts them from Info.Inflight.
func TestRepro_C11b(t *testing.T) {
	s := newServer()
	defer s.Close()
	const id = "c11b"

	connect := func() (*reproReader, func()) {
		w, done := reproAttach(s, "tcp")
		rd := newReproReader(w, 4)
		go func() { _, _ = w.Write(reproConnectBytes(4, id, false, nil)) }()
		if pk, _, err := rd.next(time.Second); err != nil || pk.FixedHeader.Type != packets.Connack {
			t.Fatalf("connack: %v %v", pk, err)
		}
		return rd, func() { _ = w.Close(); <-done }
	}

	rd1, close1 := connect()
	go func() {
		_, _ = rd1.c.Write(reproEncode(packets.Packet{ProtocolVersion: 4, FixedHeader: packets.FixedHeader{Type: packets.Subscribe, Qos: 1},
			PacketID: 5, Filters: packets.Subscriptions{{Filter: "t", Qos: 1}}}))
	}()
	if pk, _, err := rd1.next(time.Second); err != nil || pk.FixedHeader.Type != packets.Suback {
		t.Fatalf("suback: %v %v", pk, err)
	}
	const n = 3
	for i := 0; i < n; i++ {
		s.publishToSubscribers(packets.Packet{FixedHeader: packets.FixedHeader{Type: packets.Publish, Qos: 1}, TopicName: "t", Payload: []byte("x")})
		if pk, _, err := rd1.next(time.Second); err != nil || pk.FixedHeader.Type != packets.Publish {
			t.Fatalf("publish: %v %v", pk, err)
		}
	}
	before := atomic.LoadInt64(&s.Info.Inflight)
	if before != n || reproRealInflight(s) != n {
		t.Fatalf("precondition: Info.Inflight=%d real=%d, expected %d", before, reproRealInflight(s), n)
	}
	reproDrain(rd1.c)

	// takeover, the n unacknowledged messages are resent (still unacknowledged)
	rd2, close2 := connect()
	for i := 0; i < n; i++ {
		if pk, _, err := rd2.next(time.Second); err != nil || pk.FixedHeader.Type != packets.Publish || !pk.FixedHeader.Dup {
			t.Fatalf("resend: %v %v", pk, err)
		}
	}
	time.Sleep(20 * time.Millisecond)
	real := reproRealInflight(s)
	counter := atomic.LoadInt64(&s.Info.Inflight)
	close2()
	close1()
	if counter != real {
		t.Fatalf("after session takeover: $SYS Info.Inflight=%d but the session really holds %d in-flight messages (before takeover both were %d)", counter, real, n)
	}
}

// C11c: loadInflight / loadSubscriptions restore records without touching the counters.
func TestRepro_C11c(t *testing.T) {
	s := newServer()
	defer s.Close()

	s.loadClients([]storage.Client{{ID: "c11c", Listener: "tcp", ProtocolVersion: 4, Clean: false}})
	s.loadSubscriptions([]storage.Subscription{
		{ID: "SUB_c11c:a/b", Client: "c11c", Filter: "a/b", Qos: 1},
		{ID: "SUB_c11c:c/d", Client: "c11c", Filter: "c/d", Qos: 1},
	})
	s.loadInflight([]storage.Message{
		{ID: "IFM_c11c:1", Client: "c11c", PacketID: 1, TopicName: "a/b", Payload: []byte("x"), FixedHeader: packets.FixedHeader{Type: packets.Publish, Qos: 1}},
		{ID: "IFM_c11c:2", Client: "c11c", PacketID: 2, TopicName: "a/b", Payload: []byte("y"), FixedHeader: packets.FixedHeader{Type: packets.Publish, Qos: 1}},
	})

	cl, ok := s.Clients.Get("c11c")
	if !ok {
		t.Fatalf("setup: client not restored")
	}
	realInflight := int64(cl.State.Inflight.Len())
	realSubs := int64(len(cl.State.Subscriptions.GetAll()))
	gotInflight := atomic.LoadInt64(&s.Info.Inflight)
	gotSubs := atomic.LoadInt64(&s.Info.Subscriptions)

	// and the counters go negative once the restored records are consumed:
	s.UnsubscribeClient(cl)
	cl.ClearInflights()
	afterInflight := atomic.LoadInt64(&s.Info.Inflight)
	afterSubs := atomic.LoadInt64(&s.Info.Subscriptions)

	if gotInflight != realInflight || gotSubs != realSubs {
		t.Fatalf("after restoring from the store: Info.Inflight=%d (real %d), Info.Subscriptions=%d (real %d); after the session is then cleared: Info.Inflight=%d Info.Subscriptions=%d (expected 0/0)",
			gotInflight, realInflight, gotSubs, realSubs, afterInflight, afterSubs)
	}
}

// C11d: clearExpiredRetainedMessages deletes retained messages but does not refresh Info.Retained.
func TestRepro_C11d(t *testing.T) {
	s := newServer()
	defer s.Close()
	s.Options.Capabilities.MaximumMessageExpiryInterval = 3600

	cl, r, _ := newTestClient()
	reproDrain(r)
	now := time.Now().Unix()
	s.retainMessage(cl, packets.Packet{ProtocolVersion: 5, FixedHeader: packets.FixedHeader{Type: packets.Publish, Retain: true},
		TopicName: "a/b", Payload: []byte("x"), Created: now, Expiry: now + 5})
	s.retainMessage(cl, packets.Packet{ProtocolVersion: 5, FixedHeader: packets.FixedHeader{Type: packets.Publish, Retain: true},
		TopicName: "a/c", Payload: []byte("x"), Created: now, Expiry: now + 5})
	if got := atomic.LoadInt64(&s.Info.Retained); got != 2 {
		t.Fatalf("precondition: Info.Retained=%d", got)
	}

	s.clearExpiredRetainedMessages(now + 10)

	real := int64(s.Topics.Retained.Len())
	counter := atomic.LoadInt64(&s.Info.Retained)
	if real != 0 {
		t.Fatalf("setup: retained messages did not expire (%d left)", real)
	}
	if counter != real {
		t.Fatalf("after both retained messages expired: $SYS Info.Retained=%d but %d retained messages exist", counter, real)
	}
}
