package mqtt

import (
	"sync"
	"sync/atomic"
	"testing"
	"time"

	"github.com/mochi-mqtt/server/v2/packets"
)

// C1: Clients.Add(cl) happens before SendConnack in attachClient, so a concurrent publish
// to a topic of a resumed session can reach the wire before the CONNACK.
func TestRepro_C1(t *testing.T) {
	s := newServer()
	defer s.Close()

	const id = "c1-client"

	// 1. create a persistent v3.1.1 session with a subscription to a/b, then drop the connection.
	w, done := reproAttach(s, "tcp")
	rd := newReproReader(w, 4)
	_, _ = w.Write(reproConnectBytes(4, id, false, nil))
	pk, _, err := rd.next(time.Second)
	if err != nil || pk.FixedHeader.Type != packets.Connack {
		t.Fatalf("setup: expected connack, got %v %v", pk.FixedHeader.Type, err)
	}
	_, _ = w.Write(reproEncode(packets.Packet{
		ProtocolVersion: 4,
		FixedHeader:     packets.FixedHeader{Type: packets.Subscribe, Qos: 1},
		PacketID:        7,
		Filters:         packets.Subscriptions{{Filter: "a/b", Qos: 0}},
	}))
	pk, _, err = rd.next(time.Second)
	if err != nil || pk.FixedHeader.Type != packets.Suback {
		t.Fatalf("setup: expected suback, got %v %v", pk.FixedHeader.Type, err)
	}
	_ = w.Close()
	<-done

	// 2. background publishers hammering a/b (like any other connected client would).
	var stop atomic.Bool
	var wg sync.WaitGroup
	for i := 0; i < 4; i++ {
		wg.Add(1)
		go func() {
			defer wg.Done()
			for !stop.Load() {
				s.publishToSubscribers(packets.Packet{
					FixedHeader: packets.FixedHeader{Type: packets.Publish},
					TopicName:   "a/b",
					Payload:     []byte("x"),
				})
			}
		}()
	}
	defer func() { stop.Store(true); wg.Wait() }()

	// 3. resume the session over and over; the first packet on the wire must be the CONNACK.
	deadline := time.Now().Add(20 * time.Second)
	iter := 0
	for time.Now().Before(deadline) {
		iter++
		w, done := reproAttach(s, "tcp")
		rd := newReproReader(w, 4)
		go func() { _, _ = w.Write(reproConnectBytes(4, id, false, nil)) }()
		first, raw, err := rd.next(2 * time.Second)
		if err != nil {
			t.Fatalf("iteration %d: read error %v", iter, err)
		}
		reproDrain(w)
		if first.FixedHeader.Type != packets.Connack {
			_ = w.Close()
			<-done
			t.Fatalf("iteration %d: first packet received on a resumed session was %s (% x), expected CONNACK",
				iter, packets.PacketNames[first.FixedHeader.Type], raw)
		}
		_ = w.Close()
		<-done
	}
	t.Logf("no PUBLISH-before-CONNACK seen in %d iterations", iter)
}
