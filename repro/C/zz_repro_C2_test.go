package mqtt

import (
	"testing"
	"time"

	"github.com/mochi-mqtt/server/v2/packets"
)

// C2: DISCONNECT with a Session Expiry Interval above the server maximum is stored uncapped.
func TestRepro_C2(t *testing.T) {
	s := newServer()
	defer s.Close()
	const max = 10
	s.Options.Capabilities.MaximumSessionExpiryInterval = max

	const id = "c2-client"
	w, done := reproAttach(s, "tcp")
	rd := newReproReader(w, 5)
	go func() {
		_, _ = w.Write(reproConnectBytes(5, id, false, func(pk *packets.Packet) {
			pk.Properties.SessionExpiryInterval = 5
			pk.Properties.SessionExpiryIntervalFlag = true
		}))
	}()
	pk, _, err := rd.next(time.Second)
	if err != nil || pk.FixedHeader.Type != packets.Connack || pk.ReasonCode != 0 {
		t.Fatalf("setup: expected connack success, got %v %v %v", pk.FixedHeader.Type, pk.ReasonCode, err)
	}

	// DISCONNECT carrying Session Expiry Interval = 100000 s (server maximum is 10 s).
	go func() {
		_, _ = w.Write(reproEncode(packets.Packet{
			ProtocolVersion: 5,
			FixedHeader:     packets.FixedHeader{Type: packets.Disconnect},
			Properties: packets.Properties{
				SessionExpiryInterval:     100000,
				SessionExpiryIntervalFlag: true,
			},
		}))
	}()
	reproDrain(w)
	if err := <-done; err != nil {
		t.Fatalf("attachClient returned %v", err)
	}

	cl, ok := s.Clients.Get(id)
	if !ok {
		t.Fatalf("session missing right after disconnect")
	}
	stored := cl.Properties.Props.SessionExpiryInterval

	// one hour after the disconnect the session must be gone (maximum = 10 s).
	s.clearExpiredClients(cl.StopTime() + 3600)
	_, still := s.Clients.Get(id)
	if stored > max || still {
		t.Fatalf("server MaximumSessionExpiryInterval=%d s, but DISCONNECT stored SessionExpiryInterval=%d s; session still present 3600 s after disconnect: %v (expected capped to %d and expired)",
			max, stored, still, max)
	}
}
