package mqtt

import (
	"bytes"
	"net"
	"sync"
	"testing"
	"time"

	"github.com/mochi-mqtt/server/v2/listeners"
	"github.com/mochi-mqtt/server/v2/packets"
)

// reproSlowConnectHook makes OnConnect slow (e.g. an auth backend lookup), to hold a connection
// in the "accepted but not yet in s.Clients" state while Close() runs.
type reproSlowConnectHook struct {
	HookBase
	delay time.Duration
}

func (h *reproSlowConnectHook) ID() string { return "repro-slow-connect" }
func (h *reproSlowConnectHook) Provides(b byte) bool {
	return bytes.Contains([]byte{OnConnect}, []byte{b})
}
func (h *reproSlowConnectHook) OnConnect(cl *Client, pk packets.Packet) error {
	time.Sleep(h.delay)
	return nil
}

func reproC9Server(t *testing.T) (*Server, *listeners.TCP) {
	s := newServer()
	l := listeners.NewTCP(listeners.Config{ID: "t1", Address: "127.0.0.1:0"})
	if err := s.AddListener(l); err != nil {
		t.Fatal(err)
	}
	if err := s.Serve(); err != nil {
		t.Fatal(err)
	}
	return s, l
}

// reproC9Alive reports whether the broker still serves the connection (answers PINGREQ).
func reproC9Alive(c net.Conn, rd *reproReader) bool {
	if _, err := c.Write(reproEncode(packets.Packet{FixedHeader: packets.FixedHeader{Type: packets.Pingreq}})); err != nil {
		return false
	}
	for {
		pk, _, err := rd.next(time.Second)
		if err != nil {
			return false
		}
		if pk.FixedHeader.Type == packets.Pingresp {
			return true
		}
	}
}

// C9 (pinned): a connection accepted before Close() but not yet in s.Clients is not swept by
// closeListenerClients; it gets established on the closed server. Depending on whether its
// ClientsWg.Add(1) already ran, Close() either hangs on it or returns while it is still running.
func TestRepro_C9(t *testing.T) {
	s, l := reproC9Server(t)
	_ = s.AddHook(&reproSlowConnectHook{delay: 300 * time.Millisecond}, nil)

	c, err := net.Dial("tcp", l.Address())
	if err != nil {
		t.Fatal(err)
	}
	defer c.Close()
	rd := newReproReader(c, 4)
	_, _ = c.Write(reproConnectBytes(4, "c9", true, nil))
	time.Sleep(100 * time.Millisecond) // handler is now inside OnConnect

	closed := make(chan struct{})
	t0 := time.Now()
	go func() { _ = s.Close(); close(closed) }()

	returned := false
	select {
	case <-closed:
		returned = true
	case <-time.After(3 * time.Second):
	}
	closeTook := time.Since(t0)

	// what does the client see?
	pk, _, rerr := rd.next(time.Second)
	gotConnack := rerr == nil && pk.FixedHeader.Type == packets.Connack && pk.ReasonCode == 0
	alive := gotConnack && reproC9Alive(c, rd)

	_ = c.Close() // let a hanging Close() finish
	select {
	case <-closed:
	case <-time.After(5 * time.Second):
		t.Errorf("Server.Close() still hanging 5 s after the client went away")
	}

	if !returned || alive {
		t.Fatalf("Server.Close() returned within 3 s: %v (waited %v); the connection accepted before Close() got CONNACK 0: %v and is still served by the 'closed' broker (PINGRESP): %v; expected Close() to return promptly with every accepted connection closed",
			returned, closeTook.Round(time.Millisecond), gotConnack, alive)
	}
}

// C9 (natural): no hooks; connections race with Close(). Fails if Close() returned while a client
// handler was still starting (client is live after Close returned) or Close() hung on an unswept client.
func TestRepro_C9_natural(t *testing.T) {
	deadline := time.Now().Add(20 * time.Second)
	round := 0
	for time.Now().Before(deadline) {
		round++
		s, l := reproC9Server(t)
		addr := l.Address()

		const n = 16
		conns := make([]net.Conn, n)
		var wg sync.WaitGroup
		for i := 0; i < n; i++ {
			wg.Add(1)
			go func(i int) {
				defer wg.Done()
				c, err := net.Dial("tcp", addr)
				if err != nil {
					return
				}
				conns[i] = c
				_, _ = c.Write(reproConnectBytes(4, "c9n-"+Int64toa(int64(i)), true, nil))
			}(i)
		}
		time.Sleep(time.Duration(round%20) * 50 * time.Microsecond)
		closed := make(chan struct{})
		go func() { _ = s.Close(); close(closed) }()
		hung := false
		select {
		case <-closed:
		case <-time.After(2 * time.Second):
			hung = true
		}
		wg.Wait()

		live := 0
		for _, c := range conns {
			if c == nil {
				continue
			}
			rd := newReproReader(c, 4)
			pk, _, err := rd.next(300 * time.Millisecond)
			if err == nil && pk.FixedHeader.Type == packets.Connack && pk.ReasonCode == 0 && reproC9Alive(c, rd) {
				live++
			}
		}
		for _, c := range conns {
			if c != nil {
				_ = c.Close()
			}
		}
		<-closed
		if hung || live > 0 {
			t.Fatalf("round %d: Close() hung for >2 s: %v; clients still fully served (CONNACK 0 + PINGRESP) after Close(): %d of %d", round, hung, live, n)
		}
	}
	t.Logf("no anomaly in %d rounds", round)
}
