package mqtt

import (
	"testing"
	"time"

	"github.com/mochi-mqtt/server/v2/packets"
)

// C6: MQTT 3.1.1 CONNACK return code must be one of 0..5 [MQTT-3.2.2-*, table 3.1];
// codes not present in packets.V5CodesToV3 are sent as raw v5 reason codes.
func TestRepro_C6(t *testing.T) {
	cases := []struct {
		name  string
		setup func(s *Server)
		bytes func() []byte
	}{
		{
			name: "reserved_connect_flag_bit_set",
			bytes: func() []byte {
				b := reproConnectBytes(4, "c6", true, nil)
				// fixed header(2) + protocol name (2+4) + version (1) => flags at index 9
				b[9] |= 0x01
				return b
			},
		},
		{
			name:  "will_qos_above_server_maximum",
			setup: func(s *Server) { s.Options.Capabilities.MaximumQos = 1 },
			bytes: func() []byte {
				return reproConnectBytes(4, "c6", true, func(pk *packets.Packet) {
					pk.Connect.WillFlag = true
					pk.Connect.WillQos = 2
					pk.Connect.WillTopic = "w"
					pk.Connect.WillPayload = []byte("p")
				})
			},
		},
		{
			name:  "clean_false_with_empty_client_id",
			bytes: func() []byte { return reproConnectBytes(4, "", false, nil) },
		},
		{
			name:  "will_retain_when_retain_unavailable",
			setup: func(s *Server) { s.Options.Capabilities.RetainAvailable = 0 },
			bytes: func() []byte {
				return reproConnectBytes(4, "c6", true, func(pk *packets.Packet) {
					pk.Connect.WillFlag = true
					pk.Connect.WillRetain = true
					pk.Connect.WillTopic = "w"
					pk.Connect.WillPayload = []byte("p")
				})
			},
		},
	}

	for _, c := range cases {
		c := c
		t.Run(c.name, func(t *testing.T) {
			s := newServer()
			defer s.Close()
			if c.setup != nil {
				c.setup(s)
			}
			w, done := reproAttach(s, "tcp")
			rd := newReproReader(w, 4)
			go func() { _, _ = w.Write(c.bytes()) }()
			pk, raw, err := rd.next(time.Second)
			if err != nil {
				t.Fatalf("no connack received: %v (raw % x)", err, raw)
			}
			reproDrain(w)
			<-done
			if pk.FixedHeader.Type != packets.Connack {
				t.Fatalf("expected connack, got %s", packets.PacketNames[pk.FixedHeader.Type])
			}
			if len(raw) != 4 || raw[3] > 5 {
				t.Fatalf("MQTT 3.1.1 client received CONNACK % x: return code 0x%02X is not a valid v3.1.1 return code (must be 0..5)", raw, raw[3])
			}
		})
	}
}
