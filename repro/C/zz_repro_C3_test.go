package mqtt

import (
	"bytes"
	"net"
	"testing"
	"time"

	"github.com/mochi-mqtt/server/v2/listeners"
	"github.com/mochi-mqtt/server/v2/packets"
)

// reproSlowWillHook only makes OnWill slow (a perfectly legal hook, e.g. one that consults a DB);
// it is used to pin the schedule "A's teardown runs after B finished attaching".
type reproSlowWillHook struct {
	HookBase
	delay time.Duration
}

func (h *reproSlowWillHook) ID() string           { return "repro-slow-will" }
func (h *reproSlowWillHook) Provides(b byte) bool { return bytes.Contains([]byte{OnWill}, []byte{b}) }
func (h *reproSlowWillHook) OnWill(cl *Client, will Will) (Will, error) {
	time.Sleep(h.delay)
	return will, nil
}

func reproC3Connect(id string) []byte {
	return reproConnectBytes(5, id, false, func(pk *packets.Packet) {
		pk.Properties.SessionExpiryInterval = 300
		pk.Properties.SessionExpiryIntervalFlag = true
		pk.Connect.WillFlag = true
		pk.Connect.WillTopic = "will/c3"
		pk.Connect.WillPayload = []byte("A died")
		pk.Connect.WillProperties.WillDelayInterval = 5
	})
}

// C3 (pinned schedule): A (will delay 5 s) is taken over by B (clean start 0). A's sendLWT runs after
// B's willDelayed.Delete -> the delayed will stays registered and is published although the session continued.
func TestRepro_C3(t *testing.T) {
	s := newServer()
	defer s.Close()
	_ = s.AddHook(&reproSlowWillHook{delay: 300 * time.Millisecond}, nil)

	const id = "c3-client"

	// observer subscribed to the will topic
	obs, obsConn, _ := newTestClient()
	obs.ID = "c3-observer"
	s.Clients.Add(obs)
	s.Topics.Subscribe(obs.ID, packets.Subscription{Filter: "will/c3"})
	obsR := newReproReader(obsConn, 4)

	// A connects
	wa, doneA := reproAttach(s, "tcp")
	ra := newReproReader(wa, 5)
	go func() { _, _ = wa.Write(reproC3Connect(id)) }()
	if pk, _, err := ra.next(time.Second); err != nil || pk.FixedHeader.Type != packets.Connack || pk.ReasonCode != 0 {
		t.Fatalf("A: expected connack, got %v %v", pk, err)
	}
	reproDrain(wa)

	// B takes the session over (clean start 0), and stays connected.
	wb, doneB := reproAttach(s, "tcp")
	rb := newReproReader(wb, 5)
	go func() { _, _ = wb.Write(reproC3Connect(id)) }()
	pk, _, err := rb.next(time.Second)
	if err != nil || pk.FixedHeader.Type != packets.Connack || pk.ReasonCode != 0 {
		t.Fatalf("B: expected connack, got %v %v", pk, err)
	}
	if !pk.SessionPresent {
		t.Fatalf("B: expected session present")
	}
	reproDrain(wb)

	// A's handler finishes (after the slow OnWill).
	select {
	case <-doneA:
	case <-time.After(3 * time.Second):
		t.Fatalf("A's handler did not finish")
	}

	cur, _ := s.Clients.Get(id)
	if cur == nil || cur.Closed() {
		t.Fatalf("setup: B should be the live connection of the session")
	}

	_, registered := s.loop.willDelayed.Get(id)

	// the event loop fires 10 s later: B is still connected, the session never ended.
	s.sendDelayedLWT(time.Now().Unix() + 10)
	got, _, rerr := obsR.next(500 * time.Millisecond)

	_ = wb.Close()
	<-doneB

	if registered || rerr == nil {
		t.Fatalf("session %q was resumed by B (still connected), yet A's delayed will stayed registered=%v and was published to subscribers: type=%s topic=%q payload=%q (expected: no will, [MQTT-3.1.3-9])",
			id, registered, packets.PacketNames[got.FixedHeader.Type], got.TopicName, got.Payload)
	}
}

// C3 (natural schedule): same scenario over real TCP without any hook; counts how often the will stays registered.
func TestRepro_C3_natural(t *testing.T) {
	s := newServer()
	l := listeners.NewTCP(listeners.Config{ID: "t1", Address: "127.0.0.1:0"})
	if err := s.AddListener(l); err != nil {
		t.Fatal(err)
	}
	if err := s.Serve(); err != nil {
		t.Fatal(err)
	}
	defer s.Close()
	// keep the event loop from publishing delayed wills during the test: the delay is 5 s and each iteration is short.

	connect := func(id string) (net.Conn, *reproReader) {
		c, err := net.Dial("tcp", l.Address())
		if err != nil {
			t.Fatal(err)
		}
		_, _ = c.Write(reproC3Connect(id))
		r := newReproReader(c, 5)
		pk, _, err := r.next(2 * time.Second)
		if err != nil || pk.FixedHeader.Type != packets.Connack || pk.ReasonCode != 0 {
			t.Fatalf("connect: %v %v", pk, err)
		}
		return c, r
	}

	deadline := time.Now().Add(15 * time.Second)
	stale, iter := 0, 0
	for time.Now().Before(deadline) && stale == 0 {
		iter++
		id := "c3n-" + Int64toa(int64(iter))
		a, _ := connect(id)
		b, _ := connect(id) // takeover
		// wait until A's handler is over (connection count back to 1)
		time.Sleep(5 * time.Millisecond)
		if _, ok := s.loop.willDelayed.Get(id); ok {
			cur, _ := s.Clients.Get(id)
			if cur != nil && !cur.Closed() {
				stale++
			}
		}
		_ = a.Close()
		// clean disconnect of B so that no will of B is registered
		_, _ = b.Write(reproEncode(packets.Packet{ProtocolVersion: 5, FixedHeader: packets.FixedHeader{Type: packets.Disconnect}}))
		_ = b.Close()
	}
	if stale > 0 {
		t.Fatalf("after %d takeovers over TCP (no hooks): A's delayed will was still registered while B was connected (stale=%d)", iter, stale)
	}
	t.Logf("natural schedule: no stale delayed will in %d takeovers", iter)
}
