package mqtt

import (
	"net"
	"sync"
	"sync/atomic"
	"testing"
	"time"

	"github.com/mochi-mqtt/server/v2/packets"
)

// C8: MaximumClients check-then-act: simultaneous CONNECTs can all pass the limit test.
func TestRepro_C8(t *testing.T) {
	const attempts = 8
	deadline := time.Now().Add(20 * time.Second)
	round := 0
	for time.Now().Before(deadline) {
		round++
		s := newServer()
		s.Options.Capabilities.MaximumClients = 1

		var accepted int64
		var maxConnected int64
		var wg, ready sync.WaitGroup
		start := make(chan struct{})
		conns := make([]net.Conn, attempts)
		for i := 0; i < attempts; i++ {
			wg.Add(1)
			ready.Add(1)
			go func(i int) {
				defer wg.Done()
				w, _ := reproAttach(s, "tcp")
				conns[i] = w
				rd := newReproReader(w, 4)
				b := reproConnectBytes(4, "c8-"+Int64toa(int64(i)), true, nil)
				ready.Done()
				<-start
				go func() { _, _ = w.Write(b) }()
				pk, _, err := rd.next(2 * time.Second)
				if err == nil && pk.FixedHeader.Type == packets.Connack && pk.ReasonCode == 0 {
					atomic.AddInt64(&accepted, 1)
				}
			}(i)
		}
		ready.Wait()
		close(start)
		wg.Wait()
		maxConnected = atomic.LoadInt64(&s.Info.ClientsConnected)

		for _, c := range conns {
			_ = c.Close()
		}
		_ = s.Close()

		if accepted > 1 {
			t.Fatalf("round %d: MaximumClients=1 but %d of %d simultaneous CONNECTs were accepted with CONNACK 0 (Info.ClientsConnected=%d)",
				round, accepted, attempts, maxConnected)
		}
	}
	t.Logf("limit held in %d rounds", round)
}
