package bolt

import (
	"bufio"
	"bytes"
	"io"
	"log/slog"
	"net"
	"os"
	"path/filepath"
	"testing"
	"time"

	mqtt "github.com/mochi-mqtt/server/v2"
	"github.com/mochi-mqtt/server/v2/hooks/auth"
	"github.com/mochi-mqtt/server/v2/packets"
)

func c5Connect(id string, clean bool) []byte {
	pk := packets.Packet{
		FixedHeader:     packets.FixedHeader{Type: packets.Connect},
		ProtocolVersion: 4,
		Connect: packets.ConnectParams{
			ProtocolName:     []byte("MQTT"),
			Clean:            clean,
			Keepalive:        60,
			ClientIdentifier: id,
		},
	}
	buf := new(bytes.Buffer)
	_ = pk.ConnectEncode(buf)
	return buf.Bytes()
}

// c5Read reads one packet and returns its type byte and raw bytes.
func c5Read(c net.Conn, br *bufio.Reader, d time.Duration) (byte, []byte, error) {
	_ = c.SetReadDeadline(time.Now().Add(d))
	b, err := br.ReadByte()
	if err != nil {
		return 0, nil, err
	}
	raw := []byte{b}
	rem, mult := 0, 1
	for {
		lb, err := br.ReadByte()
		if err != nil {
			return 0, raw, err
		}
		raw = append(raw, lb)
		rem += int(lb&127) * mult
		mult *= 128
		if lb&128 == 0 {
			break
		}
	}
	p := make([]byte, rem)
	if _, err := io.ReadFull(br, p); err != nil {
		return 0, raw, err
	}
	return b >> 4, append(raw, p...), nil
}

func c5Server(t *testing.T, path string) (*mqtt.Server, *Hook) {
	s := mqtt.New(&mqtt.Options{
		Logger:       slog.New(slog.NewTextHandler(io.Discard, nil)),
		InlineClient: true,
	})
	_ = s.AddHook(new(auth.AllowHook), nil)
	h := new(Hook)
	if err := s.AddHook(h, &Options{Path: path}); err != nil {
		t.Fatal(err)
	}
	if err := s.Serve(); err != nil {
		t.Fatal(err)
	}
	return s, h
}

func c5Attach(s *mqtt.Server) (net.Conn, *bufio.Reader, chan error) {
	r, w := net.Pipe()
	done := make(chan error, 1)
	go func() { done <- s.EstablishConnection("tcp", r) }()
	return w, bufio.NewReader(w), done
}

// C5: session takeover (clean start 0) with a storage hook: are the persisted in-flight records of the
// (still live) session deleted by existing.ClearInflights()?
func TestRepro_C5(t *testing.T) {
	const id = "X"
	const n = 3

	for _, variant := range []string{"takeover_completes", "takeover_conn_drops_during_resend"} {
		variant := variant
		t.Run(variant, func(t *testing.T) {
			path := filepath.Join(t.TempDir(), "c5.db")
			s, h := c5Server(t, path)

			// connection 1 of X: subscribe t qos 1
			w1, br1, _ := c5Attach(s)
			go func() { _, _ = w1.Write(c5Connect(id, false)) }()
			if typ, _, err := c5Read(w1, br1, time.Second); err != nil || typ != packets.Connack {
				t.Fatalf("conn1 connack: %v %v", typ, err)
			}
			sub := packets.Packet{ProtocolVersion: 4, FixedHeader: packets.FixedHeader{Type: packets.Subscribe, Qos: 1}, PacketID: 9,
				Filters: packets.Subscriptions{{Filter: "t", Qos: 1}}}
			sb := new(bytes.Buffer)
			_ = sub.SubscribeEncode(sb)
			go func() { _, _ = w1.Write(sb.Bytes()) }()
			if typ, _, err := c5Read(w1, br1, time.Second); err != nil || typ != packets.Suback {
				t.Fatalf("conn1 suback: %v %v", typ, err)
			}

			// n QoS1 messages are delivered to X, never acknowledged
			for i := 0; i < n; i++ {
				if err := s.Publish("t", []byte{'m', byte('0' + i)}, false, 1); err != nil {
					t.Fatal(err)
				}
				if typ, _, err := c5Read(w1, br1, time.Second); err != nil || typ != packets.Publish {
					t.Fatalf("conn1 publish %d: %v %v", i, typ, err)
				}
			}
			stored, _ := h.StoredInflightMessages()
			if len(stored) != n {
				t.Fatalf("precondition: expected %d persisted in-flight records, got %d", n, len(stored))
			}
			go func() { _, _ = io.Copy(io.Discard, br1) }()

			// connection 2 of X takes the session over (clean start 0)
			w2, br2, done2 := c5Attach(s)
			go func() { _, _ = w2.Write(c5Connect(id, false)) }()
			typ, raw, err := c5Read(w2, br2, time.Second)
			if err != nil || typ != packets.Connack || raw[2] != 1 {
				t.Fatalf("conn2 connack with session present expected: %v % x %v", typ, raw, err)
			}
			if variant == "takeover_completes" {
				for i := 0; i < n; i++ {
					if typ, _, err := c5Read(w2, br2, time.Second); err != nil || typ != packets.Publish {
						t.Fatalf("conn2 resend %d: %v %v", i, typ, err)
					}
				}
				time.Sleep(50 * time.Millisecond)
			} else {
				// the new connection breaks right after the CONNACK (flaky network), the session (expiry > 0) lives on.
				_ = w2.Close()
				<-done2
			}

			cl, _ := s.Clients.Get(id)
			inMemory := cl.State.Inflight.Len()
			stored, _ = h.StoredInflightMessages()
			afterTakeover := len(stored)

			// restart the broker on the same database
			_ = w2.Close()
			_ = s.Close()
			s2, _ := c5Server(t, path)
			defer s2.Close()
			restored := -1
			if cl2, ok := s2.Clients.Get(id); ok {
				restored = cl2.State.Inflight.Len()
			}
			_ = os.Remove(path + ".lock")

			// NB: "restored" is only informational: the bolt hook does not persist the packet id
			// (storage.Message.PacketID is never set in OnQosPublish), so restored records collapse onto id 0.
			t.Logf("in memory=%d, persisted after takeover=%d, restored after restart=%d", inMemory, afterTakeover, restored)
			if afterTakeover != n {
				t.Fatalf("session %q holds %d unacknowledged QoS1 messages in memory after the takeover, but the store holds only %d in-flight records (expected %d); restored after broker restart: %d",
					id, inMemory, afterTakeover, n, restored)
			}
		})
	}
}
