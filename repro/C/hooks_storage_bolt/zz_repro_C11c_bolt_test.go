package bolt

import (
	"bytes"
	"io"
	"path/filepath"
	"sync/atomic"
	"testing"
	"time"

	"github.com/mochi-mqtt/server/v2/packets"
)

// C11c end-to-end with the bolt hook: counters after a broker restart vs. the really restored records.
// wait=0: restart before the next $SYS tick persisted the counters; wait=1500ms: after a tick.
func TestRepro_C11c_bolt(t *testing.T) {
	for _, wait := range []time.Duration{0, 1500 * time.Millisecond} {
		wait := wait
		t.Run("restart_after_"+wait.String(), func(t *testing.T) {
			path := filepath.Join(t.TempDir(), "c11.db")
			s, _ := c5Server(t, path)
			w1, br1, _ := c5Attach(s)
			go func() { _, _ = w1.Write(c5Connect("X", false)) }()
			if typ, _, err := c5Read(w1, br1, time.Second); err != nil || typ != packets.Connack {
				t.Fatalf("connack: %v %v", typ, err)
			}
			sub := packets.Packet{ProtocolVersion: 4, FixedHeader: packets.FixedHeader{Type: packets.Subscribe, Qos: 1}, PacketID: 9,
				Filters: packets.Subscriptions{{Filter: "t", Qos: 1}, {Filter: "u", Qos: 1}}}
			sb := new(bytes.Buffer)
			_ = sub.SubscribeEncode(sb)
			go func() { _, _ = w1.Write(sb.Bytes()) }()
			if typ, _, err := c5Read(w1, br1, time.Second); err != nil || typ != packets.Suback {
				t.Fatalf("suback: %v %v", typ, err)
			}
			_ = s.Publish("t", []byte("m"), false, 1)
			if typ, _, err := c5Read(w1, br1, time.Second); err != nil || typ != packets.Publish {
				t.Fatalf("publish: %v %v", typ, err)
			}
			go func() { _, _ = io.Copy(io.Discard, br1) }()
			time.Sleep(wait)
			_ = w1.Close()
			_ = s.Close()

			s2, _ := c5Server(t, path)
			defer s2.Close()
			cl, ok := s2.Clients.Get("X")
			if !ok {
				t.Fatalf("session not restored")
			}
			realInflight := int64(cl.State.Inflight.Len())
			realSubs := int64(len(cl.State.Subscriptions.GetAll()))
			gotInflight := atomic.LoadInt64(&s2.Info.Inflight)
			gotSubs := atomic.LoadInt64(&s2.Info.Subscriptions)
			if gotInflight != realInflight || gotSubs != realSubs {
				t.Fatalf("after broker restart: Info.Inflight=%d (restored %d), Info.Subscriptions=%d (restored %d)", gotInflight, realInflight, gotSubs, realSubs)
			}
		})
	}
}
