package mqtt

// Shared helpers for the TestRepro_C* tests.

import (
	"bufio"
	"bytes"
	"fmt"
	"io"
	"net"
	"testing"
	"time"

	"github.com/mochi-mqtt/server/v2/packets"
)

// reproConnectBytes builds an encoded CONNECT packet.
func reproConnectBytes(version byte, id string, clean bool, mod func(pk *packets.Packet)) []byte {
	pk := packets.Packet{
		FixedHeader:     packets.FixedHeader{Type: packets.Connect},
		ProtocolVersion: version,
		Connect: packets.ConnectParams{
			ProtocolName:     []byte("MQTT"),
			Clean:            clean,
			Keepalive:        60,
			ClientIdentifier: id,
		},
	}
	if mod != nil {
		mod(&pk)
	}
	buf := new(bytes.Buffer)
	if err := pk.ConnectEncode(buf); err != nil {
		panic(err)
	}
	return buf.Bytes()
}

// reproEncode encodes an arbitrary client->server packet.
func reproEncode(pk packets.Packet) []byte {
	buf := new(bytes.Buffer)
	var err error
	switch pk.FixedHeader.Type {
	case packets.Publish:
		err = pk.PublishEncode(buf)
	case packets.Subscribe:
		err = pk.SubscribeEncode(buf)
	case packets.Disconnect:
		err = pk.DisconnectEncode(buf)
	case packets.Puback:
		err = pk.PubackEncode(buf)
	case packets.Pingreq:
		err = pk.PingreqEncode(buf)
	default:
		err = fmt.Errorf("unsupported type %v", pk.FixedHeader.Type)
	}
	if err != nil {
		panic(err)
	}
	return buf.Bytes()
}

// reproReader reads MQTT packets from the client end of a connection.
type reproReader struct {
	c       net.Conn
	br      *bufio.Reader
	version byte
}

func newReproReader(c net.Conn, version byte) *reproReader {
	return &reproReader{c: c, br: bufio.NewReader(c), version: version}
}

// next reads one packet (with a deadline); returns the raw bytes too.
func (r *reproReader) next(timeout time.Duration) (pk packets.Packet, raw []byte, err error) {
	_ = r.c.SetReadDeadline(time.Now().Add(timeout))
	b, err := r.br.ReadByte()
	if err != nil {
		return pk, nil, err
	}
	fh := new(packets.FixedHeader)
	if err = fh.Decode(b); err != nil {
		return pk, []byte{b}, err
	}
	raw = append(raw, b)
	// remaining length
	var rem, mult = 0, 1
	for {
		lb, err := r.br.ReadByte()
		if err != nil {
			return pk, raw, err
		}
		raw = append(raw, lb)
		rem += int(lb&127) * mult
		mult *= 128
		if lb&128 == 0 {
			break
		}
	}
	fh.Remaining = rem
	p := make([]byte, rem)
	if _, err = io.ReadFull(r.br, p); err != nil {
		return pk, raw, err
	}
	raw = append(raw, p...)
	pk.ProtocolVersion = r.version
	pk.FixedHeader = *fh
	switch fh.Type {
	case packets.Connack:
		err = pk.ConnackDecode(p)
	case packets.Publish:
		err = pk.PublishDecode(p)
	case packets.Puback:
		err = pk.PubackDecode(p)
	case packets.Suback:
		err = pk.SubackDecode(p)
	case packets.Disconnect:
		err = pk.DisconnectDecode(p)
	case packets.Pingresp:
	default:
	}
	return pk, raw, err
}

// reproDrain discards everything arriving on c until it is closed.
func reproDrain(c net.Conn) {
	go func() { _, _ = io.Copy(io.Discard, c) }()
}

// reproAttach starts EstablishConnection on a fresh pipe and returns the client end and a channel for the result.
func reproAttach(s *Server, listener string) (w net.Conn, done chan error) {
	r, w := net.Pipe()
	done = make(chan error, 1)
	go func() { done <- s.EstablishConnection(listener, r) }()
	return w, done
}

func reproWaitFor(t *testing.T, what string, d time.Duration, cond func() bool) {
	t.Helper()
	deadline := time.Now().Add(d)
	for time.Now().Before(deadline) {
		if cond() {
			return
		}
		time.Sleep(time.Millisecond)
	}
	t.Fatalf("timeout waiting for %s", what)
}
