package mqtt

import (
	"bytes"
	"strings"
	"testing"
	"time"

	"github.com/mochi-mqtt/server/v2/packets"
)

// reproACLHook authenticates everybody but denies WRITE access to secret/#.
type reproACLHook struct {
	HookBase
}

func (h *reproACLHook) ID() string { return "repro-acl" }
func (h *reproACLHook) Provides(b byte) bool {
	return bytes.Contains([]byte{OnConnectAuthenticate, OnACLCheck}, []byte{b})
}
func (h *reproACLHook) OnConnectAuthenticate(cl *Client, pk packets.Packet) bool { return true }
func (h *reproACLHook) OnACLCheck(cl *Client, topic string, write bool) bool {
	if write && strings.HasPrefix(topic, "secret/") {
		return false
	}
	return true
}

func reproC4Run(t *testing.T, willTopic string, subFilter string) (connackCode byte, delivered bool, got packets.Packet, retained bool) {
	cc := NewDefaultServerCapabilities()
	cc.MaximumMessageExpiryInterval = 0
	s := New(&Options{Logger: logger, Capabilities: cc})
	_ = s.AddHook(new(reproACLHook), nil)
	defer s.Close()

	obs, obsConn, _ := newTestClient()
	obs.ID = "c4-observer"
	s.Clients.Add(obs)
	s.Topics.Subscribe(obs.ID, packets.Subscription{Filter: subFilter})
	obsR := newReproReader(obsConn, 4)

	w, done := reproAttach(s, "tcp")
	rd := newReproReader(w, 4)
	go func() {
		_, _ = w.Write(reproConnectBytes(4, "c4-client", true, func(pk *packets.Packet) {
			pk.Connect.WillFlag = true
			pk.Connect.WillRetain = true
			pk.Connect.WillTopic = willTopic
			pk.Connect.WillPayload = []byte("forged")
		}))
	}()
	pk, _, err := rd.next(time.Second)
	if err != nil {
		t.Fatalf("no connack: %v", err)
	}
	connackCode = pk.ReasonCode
	_ = w.Close() // abnormal drop -> will
	<-done

	got, _, rerr := obsR.next(300 * time.Millisecond)
	delivered = rerr == nil && got.FixedHeader.Type == packets.Publish
	_, retained = s.Topics.Retained.Get(willTopic)
	return
}

// C4: the will is published / retained without ACL check and without topic validation.
func TestRepro_C4(t *testing.T) {
	// sanity: the same client publishing to secret/x directly is refused by the ACL hook.
	t.Run("sanity_direct_publish_denied", func(t *testing.T) {
		s := New(&Options{Logger: logger})
		_ = s.AddHook(new(reproACLHook), nil)
		defer s.Close()
		cl, r, _ := newTestClient()
		reproDrain(r)
		cl.ID = "direct"
		s.Clients.Add(cl)
		_ = s.processPublish(cl, packets.Packet{FixedHeader: packets.FixedHeader{Type: packets.Publish, Retain: true}, TopicName: "secret/x", Payload: []byte("x")})
		if _, ok := s.Topics.Retained.Get("secret/x"); ok {
			t.Skip("ACL hook does not deny direct publish; test setup broken")
		}
		_ = s.processPublish(cl, packets.Packet{FixedHeader: packets.FixedHeader{Type: packets.Publish, Retain: true}, TopicName: "$SYS/x", Payload: []byte("x")})
		if _, ok := s.Topics.Retained.Get("$SYS/x"); ok {
			t.Skip("direct publish to $SYS is allowed; test premise broken")
		}
	})

	cases := []struct{ name, willTopic, sub string }{
		{"acl_denied_topic", "secret/x", "secret/#"},
		{"sys_topic", "$SYS/x", "$SYS/#"},
		{"wildcard_topic", "a/#", "a/#"},
		{"wildcard_plus_topic", "a/+/c", "a/+/c"},
	}
	for _, c := range cases {
		c := c
		t.Run(c.name, func(t *testing.T) {
			code, delivered, got, retained := reproC4Run(t, c.willTopic, c.sub)
			if delivered || retained {
				t.Fatalf("CONNECT with will topic %q was accepted (connack code %d); after connection drop the will was delivered=%v (topic=%q payload=%q) retained=%v; expected: rejected or not published",
					c.willTopic, code, delivered, got.TopicName, got.Payload, retained)
			}
		})
	}
}
