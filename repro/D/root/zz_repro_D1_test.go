package mqtt

import (
	"testing"
	"time"

	"github.com/mochi-mqtt/server/v2/hooks/storage"
)

// D1 (server level, deterministic): a v5 session with Session Expiry Interval = 60s is
// restored by loadClients. 100s after the restart clearExpiredClients must remove it.
//   - control: a record that carries SessionExpiryIntervalFlag (what the schema allows)
//   - as stored: a record without the flag, which is what all four backends write
//     (see hooks/storage TestRepro_D1), after the same JSON round trip.
func TestRepro_D1_LoadClients(t *testing.T) {
	mk := func(flag bool) storage.Client {
		in := storage.Client{
			ID:              "d1",
			T:               storage.ClientKey,
			Listener:        "tcp",
			ProtocolVersion: 5,
			Properties: storage.ClientProperties{
				SessionExpiryInterval:     60,
				SessionExpiryIntervalFlag: flag,
				RequestProblemInfo:        0,
				RequestProblemInfoFlag:    flag,
			},
		}
		b, _ := in.MarshalBinary()
		var out storage.Client
		if err := out.UnmarshalBinary(b); err != nil {
			t.Fatal(err)
		}
		return out
	}

	run := func(flag bool) (present bool) {
		s := newServer() // MaximumSessionExpiryInterval = math.MaxUint32 (default)
		s.loadClients([]storage.Client{mk(flag)})
		if _, ok := s.Clients.Get("d1"); !ok {
			t.Fatal("session not restored")
		}
		s.clearExpiredClients(time.Now().Unix() + 100)
		_, present = s.Clients.Get("d1")
		return present
	}

	if run(true) {
		t.Fatal("test setup: control session (flag persisted) was not expired")
	}
	if run(false) {
		t.Fatalf("session restored from a record as written by the storage backends (SessionExpiryInterval=60, no SessionExpiryIntervalFlag) still present 100s after restart; want expired after 60s (the server maximum %d is used instead)",
			newServer().Options.Capabilities.MaximumSessionExpiryInterval)
	}
}
