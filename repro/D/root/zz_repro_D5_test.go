package mqtt

import (
	"encoding/json"
	"testing"
	"time"

	"github.com/mochi-mqtt/server/v2/hooks/storage"
	"github.com/mochi-mqtt/server/v2/packets"
)

// reproD5Message builds the storage.Message for a publish packet exactly the way all four
// storage backends do (OnRetainMessage / OnQosPublish), and passes it through the JSON
// (de)serialisation the backends use.
func reproD5Message(t *testing.T, clientID string, pk packets.Packet, kind string) storage.Message {
	t.Helper()
	props := pk.Properties.Copy(false)
	in := storage.Message{
		ID:          kind + "_" + pk.TopicName,
		T:           kind,
		Client:      clientID,
		Origin:      pk.Origin,
		PacketID:    pk.PacketID,
		FixedHeader: pk.FixedHeader,
		TopicName:   pk.TopicName,
		Payload:     pk.Payload,
		Created:     pk.Created,
		Properties: storage.MessageProperties{
			PayloadFormat:          props.PayloadFormat,
			PayloadFormatFlag:      props.PayloadFormatFlag,
			MessageExpiryInterval:  props.MessageExpiryInterval,
			ContentType:            props.ContentType,
			ResponseTopic:          props.ResponseTopic,
			CorrelationData:        props.CorrelationData,
			SubscriptionIdentifier: props.SubscriptionIdentifier,
			TopicAlias:             props.TopicAlias,
			User:                   props.User,
		},
	}
	b, err := in.MarshalBinary()
	if err != nil {
		t.Fatal(err)
	}
	var out storage.Message
	if err := out.UnmarshalBinary(b); err != nil {
		t.Fatal(err)
	}
	return out
}

// D5: a v5 publish with Message Expiry Interval = 10s that was created 100s ago. Live, the
// housekeeping functions drop it (control). Restored from storage via loadRetained /
// loadInflight (i.e. storage.Message.ToPacket) it must be dropped as well.
func TestRepro_D5(t *testing.T) {
	now := time.Now().Unix()
	orig := packets.Packet{
		FixedHeader:     packets.FixedHeader{Type: packets.Publish, Retain: true, Qos: 1},
		ProtocolVersion: 5,
		TopicName:       "d5/topic",
		Payload:         []byte("stale"),
		PacketID:        3,
		Origin:          "pub",
		Created:         now - 100,
		Expiry:          now - 90, // as computed by processPublish: Created + MessageExpiryInterval
		Properties:      packets.Properties{MessageExpiryInterval: 10},
	}

	// the storage schema itself has nowhere to keep them
	js, _ := json.Marshal(reproD5Message(t, "d5", orig, storage.RetainedKey))
	t.Logf("stored record: %s", js)

	// ---- control: live server, no restart
	{
		s := newServer() // MaximumMessageExpiryInterval = 0: only the message's own expiry applies
		s.Topics.RetainMessage(orig.Copy(false))
		cl := s.NewClient(nil, "tcp", "d5", false)
		s.Clients.Add(cl)
		cl.State.Inflight.Set(orig.Copy(false))
		s.clearExpiredRetainedMessages(now)
		s.clearExpiredInflights(now)
		if _, ok := s.Topics.Retained.Get("d5/topic"); ok || cl.State.Inflight.Len() != 0 {
			t.Fatalf("test setup: live expired message not cleared (inflight len %d)", cl.State.Inflight.Len())
		}
	}

	// ---- after a restart
	s := newServer()
	cl := s.NewClient(nil, "tcp", "d5", false)
	s.Clients.Add(cl)
	s.loadRetained([]storage.Message{reproD5Message(t, "d5", orig, storage.RetainedKey)})
	s.loadInflight([]storage.Message{reproD5Message(t, "d5", orig, storage.InflightKey)})

	rpk, _ := s.Topics.Retained.Get("d5/topic")
	ipk, _ := cl.State.Inflight.Get(3)

	s.clearExpiredRetainedMessages(now)
	s.clearExpiredInflights(now)
	_, retainedStillThere := s.Topics.Retained.Get("d5/topic")
	inflightLeft := cl.State.Inflight.Len()

	if retainedStillThere || inflightLeft != 0 {
		t.Fatalf("restored message (created 100s ago, Message Expiry Interval 10s) not expired: "+
			"retained{ProtocolVersion=%d Expiry=%d MessageExpiryInterval=%d} still retained=%v; "+
			"inflight{ProtocolVersion=%d Expiry=%d} left in flight=%d; original had ProtocolVersion=5 Expiry=%d; want both cleared",
			rpk.ProtocolVersion, rpk.Expiry, rpk.Properties.MessageExpiryInterval, retainedStillThere,
			ipk.ProtocolVersion, ipk.Expiry, inflightLeft, orig.Expiry)
	}
}
