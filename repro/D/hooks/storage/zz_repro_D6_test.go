package storage_test

import (
	"fmt"
	"sort"
	"testing"

	"github.com/mochi-mqtt/server/v2/packets"
)

// D6: two different (client, filter) pairs must be stored as two subscription records.
// client "a:b" + filter "c"  and  client "a" + filter "b:c"  both map to "SUB_a:b:c"
// ("a:b:c" in the redis hash).
func TestRepro_D6(t *testing.T) {
	for _, b := range reproBackends(t) {
		b := b
		t.Run(b.name, func(t *testing.T) {
			h := b.open(t)
			cl1 := reproClient("a:b", 4)
			cl2 := reproClient("a", 4)
			h.OnSessionEstablished(cl1, packets.Packet{})
			h.OnSessionEstablished(cl2, packets.Packet{})
			h.OnSubscribed(cl1, packets.Packet{Filters: packets.Subscriptions{{Filter: "c", Qos: 1}}}, []byte{1})
			h.OnSubscribed(cl2, packets.Packet{Filters: packets.Subscriptions{{Filter: "b:c", Qos: 2}}}, []byte{2})
			if err := h.Stop(); err != nil {
				t.Fatal(err)
			}

			h2 := b.open(t)
			v, err := h2.StoredSubscriptions()
			if err != nil {
				t.Fatal(err)
			}
			stored := []string{}
			for _, s := range v {
				stored = append(stored, fmt.Sprintf("{client=%q filter=%q qos=%d id=%q}", s.Client, s.Filter, s.Qos, s.ID))
			}
			sort.Strings(stored)
			_ = h2.Stop()

			// server level: both sessions come back, each must still have its subscription
			s := reproServer(t, b)
			if err := s.Serve(); err != nil {
				t.Fatal(err)
			}
			_, has1 := s.Topics.Subscribers("c").Subscriptions["a:b"]
			_, has2 := s.Topics.Subscribers("b:c").Subscriptions["a"]
			_ = s.Close()

			if len(v) != 2 || !has1 || !has2 {
				t.Fatalf("stored subscriptions = %v (want 2 records); after restart client \"a:b\" subscribed to \"c\" = %v, client \"a\" subscribed to \"b:c\" = %v (want true/true)",
					stored, has1, has2)
			}
		})
	}
}

// D6 (cross delete): client "a" unsubscribing from "b:c" must not remove the stored
// subscription of client "a:b" to "c".
func TestRepro_D6_Unsubscribe(t *testing.T) {
	for _, b := range reproBackends(t) {
		b := b
		t.Run(b.name, func(t *testing.T) {
			h := b.open(t)
			defer h.Stop()
			cl1 := reproClient("a:b", 4)
			cl2 := reproClient("a", 4)
			h.OnSubscribed(cl1, packets.Packet{Filters: packets.Subscriptions{{Filter: "c", Qos: 1}}}, []byte{1})
			h.OnUnsubscribed(cl2, packets.Packet{Filters: packets.Subscriptions{{Filter: "b:c"}}}) // e.g. a no-op unsubscribe by another client
			v, err := h.StoredSubscriptions()
			if err != nil {
				t.Fatal(err)
			}
			if len(v) != 1 {
				t.Fatalf("after client \"a\" unsubscribed from \"b:c\": %d stored subscriptions, want 1 (client \"a:b\" -> \"c\" must survive)", len(v))
			}
		})
	}
}

// D6 (in-flight part of the suspect): client ids containing ':' followed by digits. The
// suspect claims inflightKey collides the same way. Behavioural probe: all pairs of
// (client id, packet id) over a small adversarial alphabet must yield distinct records.
func TestRepro_D6_Inflight(t *testing.T) {
	ids := []string{"a", "a:1", "a:1:2", "a:12", "a:", ":1", "1", "1:1", "a:1:", "a::1"}
	pids := []uint16{1, 2, 12, 21, 112}
	for _, b := range reproBackends(t) {
		b := b
		t.Run(b.name, func(t *testing.T) {
			h := b.open(t)
			defer h.Stop()
			want := 0
			for _, id := range ids {
				for _, pid := range pids {
					h.OnQosPublish(reproClient(id, 4), packets.Packet{
						FixedHeader: packets.FixedHeader{Type: packets.Publish, Qos: 1},
						TopicName:   "t", PacketID: pid,
					}, 1, 0)
					want++
				}
			}
			v, err := h.StoredInflightMessages()
			if err != nil {
				t.Fatal(err)
			}
			if len(v) != want {
				t.Fatalf("stored %d in-flight records for %d distinct (client, packet id) pairs: some keys collided", len(v), want)
			}
		})
	}
}
