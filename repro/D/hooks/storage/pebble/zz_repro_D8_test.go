package pebble

import (
	"io"
	"log/slog"
	"path/filepath"
	"testing"

	pebbledb "github.com/cockroachdb/pebble"
	mqtt "github.com/mochi-mqtt/server/v2"
	"github.com/mochi-mqtt/server/v2/packets"
)

// D8: with default options (Mode unset, as in `new(pebble.Hook)` + nil config or the
// documented examples) every Set/Delete issued by the hook must be durable, i.e. use
// pebble.Sync. The test shows the configured write option and that the option really is
// the one handed to db.Set for an acknowledged subscription.
func TestRepro_D8(t *testing.T) {
	obs := map[string]*pebbledb.WriteOptions{}
	for _, mode := range []string{"", "bogus", "Sync"} {
		h := new(Hook)
		h.SetOpts(slog.New(slog.NewTextHandler(io.Discard, nil)), nil)
		if err := h.Init(&Options{Path: filepath.Join(t.TempDir(), "pebble"), Mode: mode}); err != nil {
			t.Fatal(err)
		}
		// the subscription is "acknowledged" (SUBACK sent) once OnSubscribed has returned
		h.OnSubscribed(&mqtt.Client{ID: "d8"}, packets.Packet{Filters: packets.Subscriptions{{Filter: "a/b"}}}, []byte{0})
		obs[mode] = h.mode
		_ = h.Stop()
	}
	if obs["Sync"] != pebbledb.Sync {
		t.Fatalf("test setup: Mode=Sync does not select pebble.Sync")
	}
	if got := obs[""]; got != pebbledb.Sync {
		t.Fatalf("default write options (Options.Mode unset): h.mode == pebble.NoSync is %v, WriteOptions.Sync=%v; unknown Mode \"bogus\" also falls back to NoSync = %v; want pebble.Sync (Sync=true) so that acknowledged writes survive a crash",
			got == pebbledb.NoSync, got.Sync, obs["bogus"] == pebbledb.NoSync)
	}
}
