package storage_test

import (
	"fmt"
	"sort"
	"testing"
	"time"

	"github.com/mochi-mqtt/server/v2/packets"
)

// D3: OnQosPublish must persist the packet id of an in-flight message
// (storage.Message.PacketID, read back by Message.ToPacket / Server.loadInflight).
// Hook level: StoredInflightMessages returns the ids 7 and 9 that were stored.
// Server level: after a restart the restored session has two in-flight messages with ids 7 and 9.
func TestRepro_D3(t *testing.T) {
	for _, b := range reproBackends(t) {
		b := b
		t.Run(b.name, func(t *testing.T) {
			h := b.open(t)
			cl := reproClient("d3", 4) // v3.1.1 persistent session
			h.OnSessionEstablished(cl, packets.Packet{})
			for _, id := range []uint16{7, 9} {
				h.OnQosPublish(cl, packets.Packet{
					FixedHeader: packets.FixedHeader{Type: packets.Publish, Qos: 1},
					TopicName:   fmt.Sprintf("d3/%d", id),
					Payload:     []byte("x"),
					PacketID:    id,
					Created:     time.Now().Unix(),
				}, time.Now().Unix(), 0)
			}
			if err := h.Stop(); err != nil {
				t.Fatal(err)
			}

			// hook level
			h2 := b.open(t)
			v, err := h2.StoredInflightMessages()
			if err != nil || len(v) != 2 {
				t.Fatalf("StoredInflightMessages: len=%d err=%v", len(v), err)
			}
			stored := []int{int(v[0].PacketID), int(v[1].PacketID)}
			sort.Ints(stored)
			_ = h2.Stop()

			// server level
			s := reproServer(t, b)
			if err := s.Serve(); err != nil {
				t.Fatal(err)
			}
			defer s.Close()
			rc, ok := s.Clients.Get("d3")
			if !ok {
				t.Fatal("session d3 not restored")
			}
			restored := []int{}
			for _, pk := range rc.State.Inflight.GetAll(false) {
				restored = append(restored, int(pk.PacketID))
			}
			sort.Ints(restored)

			if fmt.Sprint(stored) != "[7 9]" || fmt.Sprint(restored) != "[7 9]" {
				t.Fatalf("in-flight packet ids: StoredInflightMessages=%v, restored session inflight=%v (len %d); want [7 9] and [7 9] (len 2)",
					stored, restored, len(restored))
			}
		})
	}
}
