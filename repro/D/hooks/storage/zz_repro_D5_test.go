package storage_test

import (
	"bytes"
	"testing"
	"time"

	"github.com/mochi-mqtt/server/v2/packets"
)

// D5 (end to end, every backend, default server capabilities): a v5 client publishes a
// retained message with Message Expiry Interval = 1s; the live broker gives it
// ProtocolVersion 5 and Expiry = Created+1. The broker is restarted on the same store.
// The restored retained message must keep its expiry and be removed by the housekeeping
// loop within a few seconds.
func TestRepro_D5_Server(t *testing.T) {
	for _, b := range reproBackends(t) {
		b := b
		t.Run(b.name, func(t *testing.T) {
			s1 := reproServer(t, b) // not Serve()d: no expiry loop in the first life
			c, done := reproConnect(t, s1, packets.Packet{
				FixedHeader:     packets.FixedHeader{Type: packets.Connect},
				ProtocolVersion: 5,
				Connect: packets.ConnectParams{
					ProtocolName:     []byte("MQTT"),
					Clean:            true,
					Keepalive:        30,
					ClientIdentifier: "d5pub",
				},
			})
			pub := packets.Packet{
				FixedHeader:     packets.FixedHeader{Type: packets.Publish, Retain: true, Qos: 1},
				ProtocolVersion: 5,
				TopicName:       "d5/topic",
				Payload:         []byte("short lived"),
				PacketID:        7,
				Properties:      packets.Properties{MessageExpiryInterval: 1},
			}
			buf := new(bytes.Buffer)
			if err := pub.PublishEncode(buf); err != nil {
				t.Fatal(err)
			}
			reproWrite(t, c, buf.Bytes())
			reproReadPacket(t, c) // puback
			live, ok := s1.Topics.Retained.Get("d5/topic")
			if !ok || live.ProtocolVersion != 5 || live.Expiry != live.Created+1 {
				t.Fatalf("test setup: live retained ok=%v version=%d created=%d expiry=%d", ok, live.ProtocolVersion, live.Created, live.Expiry)
			}
			_ = c.Close()
			<-done
			_ = s1.Close()

			s2 := reproServer(t, b)
			if err := s2.Serve(); err != nil {
				t.Fatal(err)
			}
			defer s2.Close()
			got, ok := s2.Topics.Retained.Get("d5/topic")
			if !ok {
				t.Fatal("retained message not restored")
			}

			deadline := time.Now().Add(5 * time.Second)
			expired := false
			for time.Now().Before(deadline) {
				if _, ok := s2.Topics.Retained.Get("d5/topic"); !ok {
					expired = true
					break
				}
				time.Sleep(100 * time.Millisecond)
			}
			if got.ProtocolVersion != 5 || got.Expiry != live.Expiry || !expired {
				t.Fatalf("restored retained message: ProtocolVersion=%d Expiry=%d Created=%d MessageExpiryInterval=%d (before restart: ProtocolVersion=5 Expiry=%d); removed within 5s of restart = %v (want true: 1s message expiry)",
					got.ProtocolVersion, got.Expiry, got.Created, got.Properties.MessageExpiryInterval, live.Expiry, expired)
			}
		})
	}
}
