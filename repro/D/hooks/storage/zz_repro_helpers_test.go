package storage_test

// Shared helpers for the TestRepro_D* tests: a tiny abstraction over the four
// persistent storage backends which only uses their exported API, so that the
// same scenario can be replayed against badger, bolt, pebble and redis.

import (
	"bytes"
	"io"
	"log/slog"
	"net"
	"path/filepath"
	"testing"
	"time"

	miniredis "github.com/alicebob/miniredis/v2"
	pebbledb "github.com/cockroachdb/pebble"
	badgerdb "github.com/dgraph-io/badger/v4"
	goredis "github.com/go-redis/redis/v8"
	mqtt "github.com/mochi-mqtt/server/v2"
	"github.com/mochi-mqtt/server/v2/hooks/auth"
	"github.com/mochi-mqtt/server/v2/hooks/storage"
	"github.com/mochi-mqtt/server/v2/hooks/storage/badger"
	"github.com/mochi-mqtt/server/v2/hooks/storage/bolt"
	"github.com/mochi-mqtt/server/v2/hooks/storage/pebble"
	"github.com/mochi-mqtt/server/v2/hooks/storage/redis"
	"github.com/mochi-mqtt/server/v2/packets"
	"go.etcd.io/bbolt"
)

var reproLogger = slog.New(slog.NewTextHandler(io.Discard, nil))

// reproBackend is a persistent store which survives hook "restarts".
type reproBackend struct {
	name    string
	newHook func() mqtt.Hook
	config  func() any                                    // fresh options pointing at the same store
	corrupt func(t *testing.T, kind, field string, v []byte) // write raw bytes under a key of the given kind (hook must be stopped)
}

// open returns a new initialised hook on the backend (a "process start").
func (b *reproBackend) open(t *testing.T) mqtt.Hook {
	t.Helper()
	h := b.newHook()
	h.SetOpts(reproLogger, nil)
	if err := h.Init(b.config()); err != nil {
		t.Fatalf("%s: init: %v", b.name, err)
	}
	return h
}

// reproBackends returns one fresh, empty store per backend.
func reproBackends(t *testing.T) []*reproBackend {
	t.Helper()
	dir := t.TempDir()

	badgerPath := filepath.Join(dir, "badger")
	boltPath := filepath.Join(dir, "bolt.db")
	pebblePath := filepath.Join(dir, "pebble")
	mr := miniredis.RunT(t)

	return []*reproBackend{
		{
			name:    "badger",
			newHook: func() mqtt.Hook { return new(badger.Hook) },
			config:  func() any { return &badger.Options{Path: badgerPath} },
			corrupt: func(t *testing.T, kind, field string, v []byte) {
				db, err := badgerdb.Open(badgerdb.DefaultOptions(badgerPath).WithLogger(nil))
				if err != nil {
					t.Fatal(err)
				}
				defer db.Close()
				if err := db.Update(func(txn *badgerdb.Txn) error { return txn.Set([]byte(kind+"_"+field), v) }); err != nil {
					t.Fatal(err)
				}
			},
		},
		{
			name:    "bolt",
			newHook: func() mqtt.Hook { return new(bolt.Hook) },
			config:  func() any { return &bolt.Options{Path: boltPath} },
			corrupt: func(t *testing.T, kind, field string, v []byte) {
				db, err := bbolt.Open(boltPath, 0600, &bbolt.Options{Timeout: time.Second})
				if err != nil {
					t.Fatal(err)
				}
				defer db.Close()
				if err := db.Update(func(tx *bbolt.Tx) error {
					bk, err := tx.CreateBucketIfNotExists([]byte("mochi"))
					if err != nil {
						return err
					}
					return bk.Put([]byte(kind+"_"+field), v)
				}); err != nil {
					t.Fatal(err)
				}
			},
		},
		{
			name:    "pebble",
			newHook: func() mqtt.Hook { return new(pebble.Hook) },
			config:  func() any { return &pebble.Options{Path: pebblePath} },
			corrupt: func(t *testing.T, kind, field string, v []byte) {
				db, err := pebbledb.Open(pebblePath, &pebbledb.Options{})
				if err != nil {
					t.Fatal(err)
				}
				defer db.Close()
				if err := db.Set([]byte(kind+"_"+field), v, pebbledb.Sync); err != nil {
					t.Fatal(err)
				}
			},
		},
		{
			name:    "redis",
			newHook: func() mqtt.Hook { return new(redis.Hook) },
			config:  func() any { return &redis.Options{Options: &goredis.Options{Addr: mr.Addr()}} },
			corrupt: func(t *testing.T, kind, field string, v []byte) {
				mr.HSet("mochi-"+kind, field, string(v))
			},
		},
	}
}

// reproClient returns a detached client record like the ones the backends' own tests use.
func reproClient(id string, version byte) *mqtt.Client {
	return &mqtt.Client{
		ID:  id,
		Net: mqtt.ClientConnection{Remote: "test.addr", Listener: "tcp"},
		Properties: mqtt.ClientProperties{
			Username:        []byte("username"),
			ProtocolVersion: version,
			Clean:           false,
		},
	}
}

// reproServer returns a server with default capabilities, an allow-all auth hook and
// a newly opened storage hook on the given backend.
func reproServer(t *testing.T, b *reproBackend) *mqtt.Server {
	t.Helper()
	s := mqtt.New(&mqtt.Options{Logger: reproLogger})
	if err := s.AddHook(new(auth.AllowHook), nil); err != nil {
		t.Fatal(err)
	}
	if err := s.AddHook(b.newHook(), b.config()); err != nil {
		t.Fatalf("%s: add hook: %v", b.name, err)
	}
	return s
}

// reproConnect connects a real (net.Pipe) client to the server with the given CONNECT
// packet and returns the client side of the pipe after the CONNACK has been read.
func reproConnect(t *testing.T, s *mqtt.Server, connect packets.Packet) (c net.Conn, done chan error) {
	t.Helper()
	r, w := net.Pipe()
	done = make(chan error, 1)
	go func() { done <- s.EstablishConnection("tcp", r) }()

	buf := new(bytes.Buffer)
	if err := connect.ConnectEncode(buf); err != nil {
		t.Fatal(err)
	}
	_ = w.SetDeadline(time.Now().Add(5 * time.Second))
	if _, err := w.Write(buf.Bytes()); err != nil {
		t.Fatalf("write connect: %v", err)
	}
	reproReadPacket(t, w) // connack
	return w, done
}

// reproReadPacket reads one whole mqtt packet off the wire and returns its bytes.
func reproReadPacket(t *testing.T, c net.Conn) []byte {
	t.Helper()
	hdr := make([]byte, 1)
	if _, err := io.ReadFull(c, hdr); err != nil {
		t.Fatalf("read fixed header: %v", err)
	}
	out := []byte{hdr[0]}
	var rem, mult = 0, 1
	for {
		b := make([]byte, 1)
		if _, err := io.ReadFull(c, b); err != nil {
			t.Fatalf("read remaining length: %v", err)
		}
		out = append(out, b[0])
		rem += int(b[0]&0x7f) * mult
		mult *= 128
		if b[0]&0x80 == 0 {
			break
		}
	}
	body := make([]byte, rem)
	if _, err := io.ReadFull(c, body); err != nil {
		t.Fatalf("read body: %v", err)
	}
	return append(out, body...)
}

// reproWrite encodes nothing: it writes raw packet bytes to the connection.
func reproWrite(t *testing.T, c net.Conn, b []byte) {
	t.Helper()
	if _, err := c.Write(b); err != nil {
		t.Fatalf("write: %v", err)
	}
}

var _ = storage.ClientKey
