package storage_test

import (
	"testing"

	"github.com/mochi-mqtt/server/v2/packets"
)

// D4: every backend must store the plain client id in storage.Client.ID (not a prefixed
// storage key), because Server.loadClients registers the restored session under that id.
// Suspect says redis stores "CL_<id>".
func TestRepro_D4(t *testing.T) {
	for _, b := range reproBackends(t) {
		b := b
		t.Run(b.name, func(t *testing.T) {
			h := b.open(t)
			cl := reproClient("d4-client", 4)
			h.OnSessionEstablished(cl, packets.Packet{})
			if err := h.Stop(); err != nil {
				t.Fatal(err)
			}

			h2 := b.open(t)
			v, err := h2.StoredClients()
			if err != nil || len(v) != 1 {
				t.Fatalf("StoredClients: len=%d err=%v", len(v), err)
			}
			_ = h2.Stop()

			s := reproServer(t, b)
			if err := s.Serve(); err != nil {
				t.Fatal(err)
			}
			defer s.Close()
			_, okPlain := s.Clients.Get("d4-client")
			_, okPrefixed := s.Clients.Get("CL_d4-client")

			if v[0].ID != "d4-client" || !okPlain || okPrefixed {
				t.Fatalf("stored client id = %q (want %q); restored under plain id = %v (want true), under \"CL_\"-prefixed id = %v (want false)",
					v[0].ID, "d4-client", okPlain, okPrefixed)
			}
		})
	}
}
