package storage_test

import (
	"testing"
	"time"

	"github.com/mochi-mqtt/server/v2/packets"
)

// D1 (hook level): updateClient must persist SessionExpiryIntervalFlag and
// RequestProblemInfoFlag, which storage.Client has fields for and which
// Server.loadClients reads back.
func TestRepro_D1(t *testing.T) {
	for _, b := range reproBackends(t) {
		b := b
		t.Run(b.name, func(t *testing.T) {
			h := b.open(t)
			cl := reproClient("d1", 5)
			cl.Properties.Props = packets.Properties{
				SessionExpiryInterval:     120,
				SessionExpiryIntervalFlag: true,
				RequestProblemInfo:        0,
				RequestProblemInfoFlag:    true,
			}
			h.OnSessionEstablished(cl, packets.Packet{})
			if err := h.Stop(); err != nil {
				t.Fatal(err)
			}

			h2 := b.open(t) // "restart"
			defer h2.Stop()
			v, err := h2.StoredClients()
			if err != nil || len(v) != 1 {
				t.Fatalf("StoredClients: len=%d err=%v", len(v), err)
			}
			got := v[0].Properties
			if got.SessionExpiryInterval != 120 {
				t.Fatalf("SessionExpiryInterval = %d, want 120", got.SessionExpiryInterval)
			}
			if !got.SessionExpiryIntervalFlag || !got.RequestProblemInfoFlag {
				t.Fatalf("stored client lost property flags: SessionExpiryIntervalFlag=%v RequestProblemInfoFlag=%v, want true/true (client connected with both properties present)",
					got.SessionExpiryIntervalFlag, got.RequestProblemInfoFlag)
			}
		})
	}
}

// D1 (server level): a v5 client connects with Session Expiry Interval = 1s and
// Request Problem Information = 0, then drops the connection. The broker is restarted on the
// same store. The restored session must keep the flags, and must be expired by the server
// housekeeping loop ~1s after the restart (expiry is counted from the restored disconnect time).
func TestRepro_D1_Server(t *testing.T) {
	for _, b := range reproBackends(t) {
		b := b
		t.Run(b.name, func(t *testing.T) {
			s1 := reproServer(t, b) // not Serve()d: no housekeeping loop in the first life
			c, done := reproConnect(t, s1, packets.Packet{
				FixedHeader:     packets.FixedHeader{Type: packets.Connect},
				ProtocolVersion: 5,
				Connect: packets.ConnectParams{
					ProtocolName:     []byte("MQTT"),
					Clean:            false,
					Keepalive:        30,
					ClientIdentifier: "d1",
				},
				Properties: packets.Properties{
					SessionExpiryInterval:     1,
					SessionExpiryIntervalFlag: true,
					RequestProblemInfo:        0,
					RequestProblemInfoFlag:    true,
				},
			})
			live, ok := s1.Clients.Get("d1")
			if !ok {
				t.Fatal("client not attached")
			}
			if p := live.Properties.Props; !p.SessionExpiryIntervalFlag || !p.RequestProblemInfoFlag || p.SessionExpiryInterval != 1 {
				t.Fatalf("test setup: live client props = %+v", p)
			}
			_ = c.Close()
			<-done
			_ = s1.Close()

			s2 := reproServer(t, b)
			if err := s2.Serve(); err != nil {
				t.Fatal(err)
			}
			defer s2.Close()

			restored, ok := s2.Clients.Get("d1")
			if !ok {
				t.Fatal("session d1 was not restored at all")
			}
			p := restored.Properties.Props
			flagsLost := !p.SessionExpiryIntervalFlag || !p.RequestProblemInfoFlag

			// the session expiry interval is 1s, the housekeeping ticker is 1s.
			deadline := time.Now().Add(5 * time.Second)
			expired := false
			for time.Now().Before(deadline) {
				if _, ok := s2.Clients.Get("d1"); !ok {
					expired = true
					break
				}
				time.Sleep(100 * time.Millisecond)
			}

			if flagsLost || !expired {
				t.Fatalf("restored session: SessionExpiryInterval=%d SessionExpiryIntervalFlag=%v RequestProblemInfoFlag=%v (want 1/true/true); expired within 5s of restart = %v (want true: the client asked for a 1s session expiry)",
					p.SessionExpiryInterval, p.SessionExpiryIntervalFlag, p.RequestProblemInfoFlag, expired)
			}
		})
	}
}
