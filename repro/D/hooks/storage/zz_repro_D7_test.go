package storage_test

import (
	"bytes"
	"errors"
	"fmt"
	"strings"
	"testing"

	"github.com/mochi-mqtt/server/v2/hooks/storage"
	"github.com/mochi-mqtt/server/v2/packets"
)

// reproAgree fails the test if the per-backend observations differ.
func reproAgree(t *testing.T, what string, names []string, obs []string) {
	t.Helper()
	table := new(strings.Builder)
	same := true
	for i := range obs {
		fmt.Fprintf(table, "\n    %-7s %s", names[i], obs[i])
		if obs[i] != obs[0] {
			same = false
		}
	}
	if !same {
		t.Fatalf("%s: the four storage backends disagree:%s", what, table.String())
	}
	t.Logf("%s: all backends agree:%s", what, table.String())
}

// D7a: a v5 client connects with Session Expiry Interval 3600 and later sends
// DISCONNECT with Session Expiry Interval 10 (processDisconnect updates the client's
// properties). The session does not expire on disconnect, so OnDisconnect(expire=false) is
// the last chance to refresh the stored record. All backends must store the same thing,
// namely the updated interval (10).
func TestRepro_D7a(t *testing.T) {
	var names, obs []string
	for _, b := range reproBackends(t) {
		s1 := reproServer(t, b)
		c, done := reproConnect(t, s1, packets.Packet{
			FixedHeader:     packets.FixedHeader{Type: packets.Connect},
			ProtocolVersion: 5,
			Connect: packets.ConnectParams{
				ProtocolName:     []byte("MQTT"),
				Keepalive:        30,
				ClientIdentifier: "d7",
			},
			Properties: packets.Properties{SessionExpiryInterval: 3600, SessionExpiryIntervalFlag: true},
		})
		dis := packets.Packet{
			FixedHeader:     packets.FixedHeader{Type: packets.Disconnect},
			ProtocolVersion: 5,
			Properties:      packets.Properties{SessionExpiryInterval: 10, SessionExpiryIntervalFlag: true},
		}
		buf := new(bytes.Buffer)
		if err := dis.DisconnectEncode(buf); err != nil {
			t.Fatal(err)
		}
		reproWrite(t, c, buf.Bytes())
		<-done
		_ = c.Close()
		live, _ := s1.Clients.Get("d7")
		if live == nil || live.Properties.Props.SessionExpiryInterval != 10 {
			t.Fatalf("%s: test setup: in-memory session expiry not updated by DISCONNECT", b.name)
		}
		_ = s1.Close()

		h := b.open(t)
		v, err := h.StoredClients()
		_ = h.Stop()
		if err != nil || len(v) != 1 {
			t.Fatalf("%s: StoredClients len=%d err=%v", b.name, len(v), err)
		}
		names = append(names, b.name)
		obs = append(obs, fmt.Sprintf("stored SessionExpiryInterval=%d (in-memory value at disconnect: 10)", v[0].Properties.SessionExpiryInterval))
	}
	reproAgree(t, "stored client after a non-expiring disconnect", names, obs)
}

// D7b: one undecodable record per kind sits in the store next to one valid record.
// All backends must treat that the same way in Stored*() and therefore in Server.Serve().
func TestRepro_D7b(t *testing.T) {
	var names, obs []string
	for _, b := range reproBackends(t) {
		h := b.open(t)
		cl := reproClient("good", 4)
		pk := packets.Packet{FixedHeader: packets.FixedHeader{Type: packets.Publish, Qos: 1, Retain: true}, TopicName: "good", PacketID: 5, Payload: []byte("p")}
		h.OnSessionEstablished(cl, packets.Packet{})
		h.OnSubscribed(cl, packets.Packet{Filters: packets.Subscriptions{{Filter: "good"}}}, []byte{0})
		h.OnRetainMessage(cl, pk, 1)
		h.OnQosPublish(cl, pk, 1, 0)
		_ = h.Stop()
		for _, kind := range []string{storage.ClientKey, storage.SubscriptionKey, storage.RetainedKey, storage.InflightKey} {
			b.corrupt(t, kind, "0bad", []byte("{not json")) // sorts before "good"
		}

		h2 := b.open(t)
		o := new(strings.Builder)
		desc := func(kind string, n, zero int, err error) {
			fmt.Fprintf(o, "%s{err=%v records=%d zero-value=%d} ", kind, err != nil, n, zero)
		}
		{
			v, err := h2.StoredClients()
			z := 0
			for _, r := range v {
				if r.ID == "" {
					z++
				}
			}
			desc("clients", len(v), z, err)
		}
		{
			v, err := h2.StoredSubscriptions()
			z := 0
			for _, r := range v {
				if r.Client == "" && r.Filter == "" {
					z++
				}
			}
			desc("subs", len(v), z, err)
		}
		{
			v, err := h2.StoredRetainedMessages()
			z := 0
			for _, r := range v {
				if r.TopicName == "" {
					z++
				}
			}
			desc("retained", len(v), z, err)
		}
		{
			v, err := h2.StoredInflightMessages()
			z := 0
			for _, r := range v {
				if r.TopicName == "" {
					z++
				}
			}
			desc("inflight", len(v), z, err)
		}
		_ = h2.Stop()

		s := reproServer(t, b)
		err := s.Serve()
		fmt.Fprintf(o, "| Serve() err=%v", err)
		if err == nil {
			_, okGood := s.Clients.Get("good")
			_, okEmpty := s.Clients.Get("")
			_, okRet := s.Topics.Retained.Get("good")
			_, okRetEmpty := s.Topics.Retained.Get("")
			fmt.Fprintf(o, " session good=%v session \"\"=%v retained good=%v retained \"\"=%v", okGood, okEmpty, okRet, okRetEmpty)
		}
		_ = s.Close()

		names = append(names, b.name)
		obs = append(obs, o.String())
	}
	reproAgree(t, "Stored*() with an undecodable record", names, obs)
}

// D7c: Stored*() on a hook whose database is not open (never initialised).
func TestRepro_D7c(t *testing.T) {
	var names, obs []string
	for _, b := range reproBackends(t) {
		h := b.newHook()
		h.SetOpts(reproLogger, nil)
		_, e1 := h.StoredClients()
		_, e2 := h.StoredSubscriptions()
		_, e3 := h.StoredRetainedMessages()
		_, e4 := h.StoredInflightMessages()
		_, e5 := h.StoredSysInfo()
		names = append(names, b.name)
		obs = append(obs, fmt.Sprintf("clients=%v subs=%v retained=%v inflight=%v sysinfo=%v (is ErrDBFileNotOpen: %v)",
			e1, e2, e3, e4, e5, errors.Is(e1, storage.ErrDBFileNotOpen)))
	}
	reproAgree(t, "Stored*() with db == nil", names, obs)
}
