package storage_test

import (
	"bytes"
	"testing"
	"time"

	"github.com/mochi-mqtt/server/v2/packets"
)

// D2 (hook level): OnRetainMessage / OnQosPublish must persist the Payload Format
// Indicator *presence* flag (storage.MessageProperties.PayloadFormatFlag), which
// Message.ToPacket reads back and the v5 encoder requires to emit the property.
func TestRepro_D2(t *testing.T) {
	for _, b := range reproBackends(t) {
		b := b
		t.Run(b.name, func(t *testing.T) {
			h := b.open(t)
			cl := reproClient("d2", 5)
			pk := packets.Packet{
				FixedHeader:     packets.FixedHeader{Type: packets.Publish, Retain: true, Qos: 1},
				ProtocolVersion: 5,
				TopicName:       "d2/topic",
				Payload:         []byte("utf8 payload"),
				PacketID:        11,
				Created:         time.Now().Unix(),
				Origin:          "d2",
				Properties: packets.Properties{
					PayloadFormat:     1,
					PayloadFormatFlag: true,
				},
			}
			h.OnRetainMessage(cl, pk, 1)
			h.OnQosPublish(cl, pk, time.Now().Unix(), 0)
			if err := h.Stop(); err != nil {
				t.Fatal(err)
			}

			h2 := b.open(t) // "restart"
			defer h2.Stop()
			ret, err := h2.StoredRetainedMessages()
			if err != nil || len(ret) != 1 {
				t.Fatalf("StoredRetainedMessages: len=%d err=%v", len(ret), err)
			}
			ifm, err := h2.StoredInflightMessages()
			if err != nil || len(ifm) != 1 {
				t.Fatalf("StoredInflightMessages: len=%d err=%v", len(ifm), err)
			}

			// what a v5 subscriber would receive after the restart
			out := ret[0].ToPacket()
			out.ProtocolVersion = 5
			out.PacketID = 1 // the server assigns a fresh packet id on delivery
			buf := new(bytes.Buffer)
			if err := out.PublishEncode(buf); err != nil {
				t.Fatal(err)
			}
			// property section of a v5 publish with only a payload format indicator: len=2, id=0x01, value=0x01
			hasProp := bytes.Contains(buf.Bytes(), []byte{2, packets.PropPayloadFormat, 1})

			// control: the packet as it was before being stored does encode the property.
			ctl := new(bytes.Buffer)
			if err := pk.PublishEncode(ctl); err != nil || !bytes.Contains(ctl.Bytes(), []byte{2, packets.PropPayloadFormat, 1}) {
				t.Fatalf("test setup: original packet does not encode the property (err=%v)", err)
			}

			if !ret[0].Properties.PayloadFormatFlag || !ifm[0].Properties.PayloadFormatFlag || !hasProp {
				t.Fatalf("Payload Format Indicator lost: retained{PayloadFormat=%d PayloadFormatFlag=%v} inflight{PayloadFormat=%d PayloadFormatFlag=%v} re-encoded v5 publish carries property 0x01 = %v; want flag true/true and property present",
					ret[0].Properties.PayloadFormat, ret[0].Properties.PayloadFormatFlag,
					ifm[0].Properties.PayloadFormat, ifm[0].Properties.PayloadFormatFlag, hasProp)
			}
		})
	}
}

// D2 (server level): a v5 client publishes a retained message with Payload Format
// Indicator = 1. After a broker restart the retained message in the topic tree must still
// carry the indicator.
func TestRepro_D2_Server(t *testing.T) {
	for _, b := range reproBackends(t) {
		b := b
		t.Run(b.name, func(t *testing.T) {
			s1 := reproServer(t, b)
			c, done := reproConnect(t, s1, packets.Packet{
				FixedHeader:     packets.FixedHeader{Type: packets.Connect},
				ProtocolVersion: 5,
				Connect: packets.ConnectParams{
					ProtocolName:     []byte("MQTT"),
					Clean:            true,
					Keepalive:        30,
					ClientIdentifier: "d2pub",
				},
			})
			pub := packets.Packet{
				FixedHeader:     packets.FixedHeader{Type: packets.Publish, Retain: true, Qos: 1},
				ProtocolVersion: 5,
				TopicName:       "d2/topic",
				Payload:         []byte("utf8 payload"),
				PacketID:        7,
				Properties:      packets.Properties{PayloadFormat: 1, PayloadFormatFlag: true},
			}
			buf := new(bytes.Buffer)
			if err := pub.PublishEncode(buf); err != nil {
				t.Fatal(err)
			}
			reproWrite(t, c, buf.Bytes())
			reproReadPacket(t, c) // puback: the message has been processed and retained
			live, ok := s1.Topics.Retained.Get("d2/topic")
			if !ok || !live.Properties.PayloadFormatFlag || live.Properties.PayloadFormat != 1 {
				t.Fatalf("test setup: live retained = %+v ok=%v", live.Properties, ok)
			}
			_ = c.Close()
			<-done
			_ = s1.Close()

			s2 := reproServer(t, b)
			if err := s2.Serve(); err != nil {
				t.Fatal(err)
			}
			defer s2.Close()
			got, ok := s2.Topics.Retained.Get("d2/topic")
			if !ok {
				t.Fatal("retained message not restored")
			}
			if !got.Properties.PayloadFormatFlag {
				t.Fatalf("restored retained message: PayloadFormat=%d PayloadFormatFlag=%v, want 1/true (as before the restart)",
					got.Properties.PayloadFormat, got.Properties.PayloadFormatFlag)
			}
		})
	}
}
