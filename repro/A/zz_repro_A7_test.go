package mqtt

import (
	"testing"

	"github.com/mochi-mqtt/server/v2/packets"
)

// A7: IsValidFilter must reject filters where a wildcard does not occupy an entire level
// [MQTT-4.7.1-2] [MQTT-4.7.1-3] and shared filters with an empty share name or an empty
// topic filter [MQTT-4.8.2-1] [MQTT-4.7.3-1].
func TestRepro_A7(t *testing.T) {
	// sanity: valid ones are accepted
	for _, f := range []string{"a/b/#", "a/+/c", "+", "#", "$share/g/a", "$share/g/#"} {
		if !IsValidFilter(f, false) {
			t.Errorf("sanity: valid filter %q rejected", f)
		}
	}

	accepted := []string{}
	for _, f := range []string{"a/b#", "a+", "a/+b/c", "$share/g/", "$share//a"} {
		if IsValidFilter(f, false) {
			accepted = append(accepted, f)
			t.Errorf("IsValidFilter(%q, false) = true, expected false", f)
		}
	}

	// and the server really installs such a subscription
	s := newServerWithInlineClient()
	if err := s.Subscribe("a/b#", 1, func(*Client, packets.Subscription, packets.Packet) {}); err == nil {
		t.Errorf("Server.Subscribe(\"a/b#\") succeeded, expected ErrTopicFilterInvalid")
	}

	if len(accepted) > 0 {
		t.Fatalf("A7 reproduced: invalid filters accepted: %q", accepted)
	}
}
