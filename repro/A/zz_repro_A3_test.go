package mqtt

import (
	"io"
	"sync/atomic"
	"testing"

	"github.com/mochi-mqtt/server/v2/packets"
)

// A3: Unsubscribe returns true whenever the filter particle exists, regardless of
// whether the given client had a subscription there.
func TestRepro_A3(t *testing.T) {
	failed := false

	x := NewTopicsIndex()
	x.Subscribe("owner", packets.Subscription{Filter: "a/b"})
	if got := x.Unsubscribe("a/b", "stranger"); got {
		failed = true
		t.Errorf("Topics.Unsubscribe(\"a/b\", \"stranger\") = true, expected false (stranger never subscribed)")
	}
	if _, ok := x.Subscribers("a/b").Subscriptions["owner"]; !ok {
		t.Errorf("sanity: owner lost its subscription")
	}

	// server level: real SUBSCRIBE from owner, then UNSUBSCRIBE from a stranger (v5).
	s := newServer()
	owner, r1, w1 := newTestClient()
	owner.ID = "owner"
	owner.Properties.ProtocolVersion = 5
	s.Clients.Add(owner)
	go func() { _, _ = io.Copy(io.Discard, r1) }()
	defer w1.Close()

	err := s.processPacket(owner, packets.Packet{
		ProtocolVersion: 5,
		FixedHeader:     packets.FixedHeader{Type: packets.Subscribe, Qos: 1},
		PacketID:        10,
		Filters:         packets.Subscriptions{{Filter: "a/b"}},
	})
	if err != nil {
		t.Fatal(err)
	}
	if n := atomic.LoadInt64(&s.Info.Subscriptions); n != 1 {
		t.Fatalf("sanity: Info.Subscriptions = %d after one subscribe, expected 1", n)
	}

	stranger, r2, w2 := newTestClient()
	stranger.ID = "stranger"
	stranger.Properties.ProtocolVersion = 5
	s.Clients.Add(stranger)

	done := make(chan []byte, 1)
	go func() {
		buf, _ := io.ReadAll(r2)
		done <- buf
	}()

	err = s.processPacket(stranger, packets.Packet{
		ProtocolVersion: 5,
		FixedHeader:     packets.FixedHeader{Type: packets.Unsubscribe, Qos: 1},
		PacketID:        11,
		Filters:         packets.Subscriptions{{Filter: "a/b"}},
	})
	if err != nil {
		t.Fatal(err)
	}
	_ = w2.Close()
	buf := <-done

	// UNSUBACK v5: [type, remaining, pid msb, pid lsb, props len(0), reason code]
	if len(buf) != 6 || buf[0] != packets.Unsuback<<4 {
		t.Fatalf("unexpected unsuback bytes: %v", buf)
	}
	if code := buf[5]; code != packets.CodeNoSubscriptionExisted.Code {
		failed = true
		t.Errorf("UNSUBACK reason code for stranger = 0x%02x, expected 0x%02x (No subscription existed)", code, packets.CodeNoSubscriptionExisted.Code)
	}
	if n := atomic.LoadInt64(&s.Info.Subscriptions); n != 1 {
		failed = true
		t.Errorf("Info.Subscriptions = %d after stranger's unsubscribe, expected 1 (owner is still subscribed: %v)",
			n, len(s.Topics.Subscribers("a/b").Subscriptions) == 1)
	}

	if failed {
		t.Fatalf("A3 reproduced")
	}
}
