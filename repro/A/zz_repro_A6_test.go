package mqtt

import (
	"testing"

	"github.com/mochi-mqtt/server/v2/packets"
)

// A6: "+/#" matches the single-level topic "a" ('+' matches "a", '#' includes the parent
// level, 4.7.1.2), so a subscriber to "+/#" must be returned for topic "a".
func TestRepro_A6(t *testing.T) {
	x := NewTopicsIndex()
	x.Subscribe("plus", packets.Subscription{Filter: "+/#"})
	x.Subscribe("lit", packets.Subscription{Filter: "a/#"}) // control

	subs := x.Subscribers("a")
	if _, ok := subs.Subscriptions["lit"]; !ok {
		t.Errorf("sanity: a/# did not match topic a")
	}
	// control: deeper levels do match +/#
	if _, ok := x.Subscribers("a/b").Subscriptions["plus"]; !ok {
		t.Errorf("sanity: +/# did not match topic a/b")
	}

	if _, ok := subs.Subscriptions["plus"]; !ok {
		got := []string{}
		for k := range subs.Subscriptions {
			got = append(got, k)
		}
		t.Fatalf("A6 reproduced: Subscribers(\"a\") = %v, expected it to include client \"plus\" subscribed with \"+/#\"", got)
	}
}
