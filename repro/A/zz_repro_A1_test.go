package mqtt

import (
	"sync/atomic"
	"testing"

	"github.com/mochi-mqtt/server/v2/packets"
)

// A1: topics beginning with '$' must not be matched by filters that start with a
// wildcard [MQTT-4.7.2-1]. Only gatherSubscriptions enforces that; shared and inline
// subscriptions are gathered without the check.
func TestRepro_A1(t *testing.T) {
	x := NewTopicsIndex()
	noop := func(cl *Client, sub packets.Subscription, pk packets.Packet) {}

	x.Subscribe("normal", packets.Subscription{Filter: "#"})          // control: correctly excluded
	x.Subscribe("normal2", packets.Subscription{Filter: "+/x"})       // control: correctly excluded
	x.Subscribe("sharer", packets.Subscription{Filter: "$share/g/#"}) // shared, topic filter is "#"
	x.Subscribe("sharer2", packets.Subscription{Filter: "$share/g/+/x"})
	x.InlineSubscribe(InlineSubscription{Subscription: packets.Subscription{Filter: "#", Identifier: 1}, Handler: noop})
	x.InlineSubscribe(InlineSubscription{Subscription: packets.Subscription{Filter: "+/x", Identifier: 2}, Handler: noop})

	subs := x.Subscribers("$SYS/x")
	if len(subs.Subscriptions) != 0 {
		t.Errorf("control failed: normal subscriptions matched $SYS/x: %v", subs.Subscriptions)
	}

	failed := false
	if len(subs.Shared) != 0 {
		failed = true
		keys := []string{}
		for k := range subs.Shared {
			keys = append(keys, k)
		}
		t.Errorf("Subscribers(\"$SYS/x\").Shared: expected no shared subscriptions (filters start with a wildcard), got %d: %v", len(subs.Shared), keys)
	}
	if len(subs.InlineSubscriptions) != 0 {
		failed = true
		fl := []string{}
		for _, v := range subs.InlineSubscriptions {
			fl = append(fl, v.Filter)
		}
		t.Errorf("Subscribers(\"$SYS/x\").InlineSubscriptions: expected none (filters start with a wildcard), got %d: %v", len(subs.InlineSubscriptions), fl)
	}

	// end to end through the server with the inline client + a shared subscriber
	s := newServerWithInlineClient()
	var inlineHits int32
	if err := s.Subscribe("#", 1, func(cl *Client, sub packets.Subscription, pk packets.Packet) {
		atomic.AddInt32(&inlineHits, 1)
	}); err != nil {
		t.Fatal(err)
	}
	s.Topics.Subscribe("sharer", packets.Subscription{Filter: "$share/g/#"})
	if err := s.Publish("$SYS/x", []byte("v"), false, 0); err != nil {
		t.Fatal(err)
	}
	if n := atomic.LoadInt32(&inlineHits); n != 0 {
		failed = true
		t.Errorf("server: inline subscription \"#\" received %d message(s) published to \"$SYS/x\", expected 0", n)
	}
	sel := s.Topics.Subscribers("$SYS/x")
	sel.SelectShared()
	sel.MergeSharedSelected()
	if _, ok := sel.Subscriptions["sharer"]; ok {
		failed = true
		t.Errorf("server: client with \"$share/g/#\" is selected as a receiver for \"$SYS/x\", expected not selected")
	}

	if failed {
		t.Fatalf("A1 reproduced: '$' topic matched by wildcard-leading shared/inline filters")
	}
}
