package mqtt

import (
	"testing"

	"github.com/mochi-mqtt/server/v2/packets"
)

// A2: retained messages on '$'-prefixed topics other than exactly "$SYS" are returned
// for filters starting with a wildcard [MQTT-4.7.2-1].
func TestRepro_A2(t *testing.T) {
	x := NewTopicsIndex()
	x.RetainMessage(packets.Packet{
		FixedHeader: packets.FixedHeader{Type: packets.Publish, Retain: true},
		TopicName:   "$foo/bar",
		Payload:     []byte("secret"),
	})
	// control: "$SYS" is skipped
	x.RetainMessage(packets.Packet{
		FixedHeader: packets.FixedHeader{Type: packets.Publish, Retain: true},
		TopicName:   "$SYS/bar",
		Payload:     []byte("sys"),
	})

	failed := false
	for _, filter := range []string{"#", "+/bar", "+/#", "+/+"} {
		got := []string{}
		for _, pk := range x.Messages(filter) {
			got = append(got, pk.TopicName)
		}
		if len(got) != 0 {
			failed = true
			t.Errorf("Messages(%q): expected no retained messages for '$' topics, got %v", filter, got)
		}
	}

	// sanity: explicit filter still works
	if n := len(x.Messages("$foo/#")); n != 1 {
		t.Errorf("sanity: Messages(\"$foo/#\") returned %d, expected 1", n)
	}

	if failed {
		t.Fatalf("A2 reproduced: wildcard-leading filter returned retained message on a '$' topic")
	}
}
