package auth

import (
	"testing"

	mqtt "github.com/mochi-mqtt/server/v2"
)

// A8: (a) per-user ACL evaluation iterates a Go map and returns on the first matching
// filter, so overlapping filters with different access give nondeterministic answers;
// (b) MatchTopic ignores surplus topic levels, so "a/+" matches "a/b/c".
func TestRepro_A8(t *testing.T) {
	t.Run("ACLOk_nondeterministic", func(t *testing.T) {
		l := &Ledger{
			Users: Users{
				"mochi": {
					Password: "melon",
					ACL: Filters{
						"a/#": ReadWrite,
						"a/b": Deny,
					},
				},
			},
		}
		cl := &mqtt.Client{Properties: mqtt.ClientProperties{Username: []byte("mochi")}}

		for _, write := range []bool{false, true} {
			var allowed, denied int
			for i := 0; i < 2000; i++ {
				if _, ok := l.ACLOk(cl, "a/b", write); ok {
					allowed++
				} else {
					denied++
				}
			}
			if allowed > 0 && denied > 0 {
				t.Errorf("ACLOk(user mochi, topic \"a/b\", write=%v) evaluated 2000 times on the same ledger: allowed %d times, denied %d times; expected one stable answer",
					write, allowed, denied)
			}
		}
		if t.Failed() {
			t.Fatalf("A8(a) reproduced: ACL result depends on map iteration order")
		}
	})

	t.Run("MatchTopic_surplus_levels", func(t *testing.T) {
		// sanity
		if _, ok := MatchTopic("a/+", "a/b"); !ok {
			t.Errorf("sanity: a/+ should match a/b")
		}
		if _, ok := MatchTopic("a/b", "a"); ok {
			t.Errorf("sanity: a/b should not match a")
		}

		bad := [][2]string{{"a/+", "a/b/c"}, {"a/b", "a/b/c"}, {"+", "a/b"}}
		for _, c := range bad {
			if el, ok := MatchTopic(c[0], c[1]); ok {
				t.Errorf("MatchTopic(%q, %q) = (%v, true), expected no match", c[0], c[1], el)
			}
		}
		if t.Failed() {
			t.Fatalf("A8(b) reproduced: MatchTopic matches topics with more levels than the filter")
		}
	})
}
