package mqtt

import (
	"sort"
	"testing"

	"github.com/mochi-mqtt/server/v2/packets"
)

// A5: "a/#" must match topic "a" as well (4.7.1.2: '#' includes the parent level), so the
// retained message on "a" must be returned for the filter "a/#".
func TestRepro_A5(t *testing.T) {
	x := NewTopicsIndex()
	for _, topic := range []string{"a", "a/b", "a/b/c"} {
		x.RetainMessage(packets.Packet{
			FixedHeader: packets.FixedHeader{Type: packets.Publish, Retain: true},
			TopicName:   topic,
			Payload:     []byte("v"),
		})
	}

	got := []string{}
	for _, pk := range x.Messages("a/#") {
		got = append(got, pk.TopicName)
	}
	sort.Strings(got)

	// the subscriber index agrees that a/# matches "a" (live delivery):
	x.Subscribe("cl", packets.Subscription{Filter: "a/#"})
	if _, ok := x.Subscribers("a").Subscriptions["cl"]; !ok {
		t.Errorf("sanity: live matching of a/# against topic a does not hold either")
	}

	want := []string{"a", "a/b", "a/b/c"}
	if len(got) != len(want) || got[0] != "a" {
		t.Fatalf("A5 reproduced: Messages(\"a/#\") = %v, expected %v (retained message on parent level \"a\" missing)", got, want)
	}
}
