package mqtt

import (
	"reflect"
	"testing"
	"time"

	"github.com/mochi-mqtt/server/v2/packets"
	"github.com/mochi-mqtt/server/v2/system"
)

// A4: a retained message replayed on SUBSCRIBE must carry the subscription identifier
// of the subscription [MQTT-3.3.4-3], like live delivery does.
func TestRepro_A4(t *testing.T) {
	s := newServer()
	cl, r, w := newTestClient()
	cl.Properties.ProtocolVersion = 5
	s.Clients.Add(cl)
	defer w.Close()

	// a reader-side client used purely to decode what the broker writes to the wire.
	rc := newClient(r, &ops{
		info:    new(system.Info),
		hooks:   new(Hooks),
		log:     logger,
		options: &Options{Capabilities: &Capabilities{}},
	})
	rc.Properties.ProtocolVersion = 5

	got := make(chan packets.Packet, 8)
	go func() {
		for {
			fh := new(packets.FixedHeader)
			if err := rc.ReadFixedHeader(fh); err != nil {
				close(got)
				return
			}
			pk, err := rc.ReadPacket(fh)
			if err != nil {
				close(got)
				return
			}
			got <- pk
		}
	}()
	next := func(what string) packets.Packet {
		select {
		case pk, ok := <-got:
			if !ok {
				t.Fatalf("connection closed waiting for %s", what)
			}
			return pk
		case <-time.After(2 * time.Second):
			t.Fatalf("timeout waiting for %s", what)
		}
		return packets.Packet{}
	}

	// retained message on a/b
	s.Topics.RetainMessage(packets.Packet{
		ProtocolVersion: 5,
		FixedHeader:     packets.FixedHeader{Type: packets.Publish, Retain: true},
		TopicName:       "a/b",
		Payload:         []byte("retained"),
	})

	// real v5 SUBSCRIBE bytes: packet id 10, subscription identifier 7, filter a/b qos 0
	raw := []byte{
		packets.Subscribe<<4 | 1<<1, 11,
		0, 10, // packet id
		2, 11, 7, // properties: subscription identifier (11) = 7
		0, 3, 'a', '/', 'b',
		0, // options
	}
	sub := packets.Packet{
		ProtocolVersion: 5,
		FixedHeader:     packets.FixedHeader{Type: packets.Subscribe, Qos: 1, Remaining: 11},
	}
	if err := sub.SubscribeDecode(raw[2:]); err != nil {
		t.Fatal(err)
	}
	if sub.Filters[0].Identifier != 7 {
		t.Fatalf("sanity: decoded subscription identifier = %d", sub.Filters[0].Identifier)
	}

	errc := make(chan error, 1)
	go func() { errc <- s.processPacket(cl, sub) }()

	if pk := next("suback"); pk.FixedHeader.Type != packets.Suback {
		t.Fatalf("expected suback, got type %d", pk.FixedHeader.Type)
	}
	retained := next("retained publish")
	if err := <-errc; err != nil {
		t.Fatal(err)
	}
	if retained.FixedHeader.Type != packets.Publish || string(retained.Payload) != "retained" {
		t.Fatalf("expected retained publish, got %+v", retained)
	}

	// live delivery of the same message to the same subscription
	s.publishToSubscribers(packets.Packet{
		ProtocolVersion: 5,
		FixedHeader:     packets.FixedHeader{Type: packets.Publish},
		TopicName:       "a/b",
		Payload:         []byte("live"),
	})
	live := next("live publish")
	if live.FixedHeader.Type != packets.Publish || string(live.Payload) != "live" {
		t.Fatalf("expected live publish, got %+v", live)
	}

	t.Logf("live     publish SubscriptionIdentifier = %v", live.Properties.SubscriptionIdentifier)
	t.Logf("retained publish SubscriptionIdentifier = %v", retained.Properties.SubscriptionIdentifier)

	if !reflect.DeepEqual(live.Properties.SubscriptionIdentifier, []int{7}) {
		t.Errorf("sanity: live delivery SubscriptionIdentifier = %v, expected [7]", live.Properties.SubscriptionIdentifier)
	}
	if !reflect.DeepEqual(retained.Properties.SubscriptionIdentifier, []int{7}) {
		t.Fatalf("A4 reproduced: retained replay on SUBSCRIBE has SubscriptionIdentifier = %v, expected [7] (live delivery has %v)",
			retained.Properties.SubscriptionIdentifier, live.Properties.SubscriptionIdentifier)
	}
}
