#!/bin/bash
# usage: check.sh <Cxx> quick|thorough
# Rebuilds the checker (cached) and decides property <Cxx> on /repo's current working tree.
set -u
PROP="$1"; TIER="${2:-quick}"
export GOFLAGS=-mod=mod GOPROXY=off GOSUMDB=off GOTOOLCHAIN=local GOWORK=off
export VERIF_TIER="$TIER"
HERE="$(cd "$(dirname "$0")" && pwd)"
REPO="${VERIF_REPO:-/repo}"
mkdir -p "$HERE/bin" "$HERE/evidence"
( cd "$HERE/checker" && go build -o "$HERE/bin/mqttverif" . ) || { echo "check.sh: building the checker failed" >&2; exit 2; }
if [ "$TIER" = thorough ]; then
  exec "$HERE/thorough.sh" "$PROP" "$REPO"
fi
exec "$HERE/bin/mqttverif" -repo "$REPO" -prop "$PROP" -tier quick -known "$HERE/known_findings.json" -evidence "$HERE/evidence/$PROP.json"
